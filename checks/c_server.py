"""C07 (graceful shutdown) and C09 (fault confinement) of hyperdriver::Server.

Pipeline of one run (same for both properties, different schedule families and monitor invariants):
  1. TLC checks spec/Server.tla exhaustively on the tier's bounds (coverage on); a small as-built
     configuration (AsBuiltD8) demonstrates that TLC finds defect D8 on the model; liveness config.
  2. TLC generates behaviours (`-simulate`, history variable, settle discipline) -> schedules.
  3. harness bin `server` runs them, and a seeded random walk over the really enabled actions, on the
     REAL hyperdriver::Server (duplex; TLS; thorough: TCP and Unix sockets) and records observations.
  4. TLC evaluates spec/ServerObs.tla (the property formulas as invariants) over the recorded trace:
     this alone decides VIOLATION.  Model-vs-real differences are reported as drift.
"""
import collections
import json
import os
import re
import subprocess
import time

import vlib

INV = {
    "C07": ["C07_NoAcceptAfterSignal", "C07_NoServiceAfterSignal", "C07_ReturnsOk", "C07_InflightCompletes",
            "C07_ToldAtMostOnce", "C07_OpenToldAndClosed", "C07_DriversEnd"],
    "C09": ["C09_Quiescent", "C09_SrvStable", "C09_EndsOnlyOnAllowed", "C09_ProbeServed", "C09_Isolation", "C09_OthersServed",
            "C09_DriversEnd"],
}
MODEL_PROPS = {
    "C07": ["C07_NoAcceptAfterSignal", "C07_OkIffSignal", "C07_InflightCompletes", "C07_ToldAtMostOnce",
            "C07_OpenToldAndClosed", "C07_IdleCloses", "C07_NoNewService", "C07_SignalReturns (live cfg)"],
    "C09": ["C09_FaultLocal", "C09_EndsOnlyOnAllowed", "C09_EndCauseConsistent", "C09_OthersServed",
            "C09_AcceptNeverBlocked (live cfg)"],
}
FAULTS = {"CancelConnect", "Disconnect", "Trunc", "Garbage", "GateErr", "Prefix", "ResetConnect"}
NOTABLE = FAULTS | {"Signal", "ListenerLost", "MakeFail", "MakeOpen", "Probe", "ConnectRaw"}

ASSUMPTIONS = [
    "hyper 1.6 behaviour after graceful_shutdown (finish the exchange in flight, close idle connections, GOAWAY on "
    "HTTP/2) is an environment assumption of Server.tla; on the real runs it is observed, not assumed: the monitor "
    "formulas speak only about what clients, handlers and the wrapped public traits observed",
    "observation points are public trait boundaries wrapped by the harness (Accept, Protocol/Connection, make-service, "
    "executor, signal future); the k-th accepted stream is attributed to the k-th not-cancelled connect (FIFO listener)",
    "deterministic tiers run on a paused current-thread tokio runtime: one settle = run to quiescence; real-socket "
    "schedules (thorough) use a quiescence heuristic and only eventual-outcome formulas (C09_Isolation is skipped there)",
    "client cooperation at Quiesce: every well-behaved client finishes what it began and reads to EOF; requests of "
    "clients that misbehaved, and of connections whose handler was made to fail, are exempt",
    "bounds: model <=2 (quick) / <=3 (thorough) connections, <=2 requests on connection 1 and 1 on the others; "
    "real runs <=3 connections x <=2 requests; one signal per schedule",
]


# ------------------------------------------------------------------------------------------------
def ensure_certs(pid):
    d = os.path.join(vlib.outdir(pid), "tls")
    os.makedirs(d, exist_ok=True)
    need = ["ca.pem", "cert.pem", "key.pem"]
    if all(os.path.exists(os.path.join(d, n)) for n in need):
        # regenerate when older than a day (30 day validity)
        if time.time() - os.path.getmtime(os.path.join(d, "cert.pem")) < 86400:
            return d

    def sh(cmd):
        p = subprocess.run(cmd, cwd=d, shell=True, stdout=subprocess.PIPE, stderr=subprocess.STDOUT, text=True)
        if p.returncode != 0:
            raise vlib.ToolError("openssl failed: " + p.stdout[-400:])

    sh('openssl req -x509 -newkey rsa:2048 -nodes -keyout ca.key -out ca.pem -days 30 -subj "/CN=verif test CA" '
       '-addext "basicConstraints=critical,CA:TRUE" -addext "keyUsage=critical,keyCertSign,cRLSign"')
    sh('openssl req -newkey rsa:2048 -nodes -keyout key.pem -out leaf.csr -subj "/CN=example.com"')
    with open(os.path.join(d, "ext.cnf"), "w") as f:
        f.write("subjectAltName=DNS:example.com\nbasicConstraints=CA:FALSE\n"
                "keyUsage=digitalSignature,keyEncipherment\nextendedKeyUsage=serverAuth\n")
    sh("openssl x509 -req -in leaf.csr -CA ca.pem -CAkey ca.key -CAcreateserial -out cert.pem -days 30 -extfile ext.cnf")
    return d


# ------------------------------------------------------------------------------------------------
# model behaviours -> harness schedules
def convert(beh, n, pid, src):
    cfg = beh["cfg"]
    tls = bool(cfg["tls"])
    steps, exps = [], []
    kinds = {}
    last_settled = False
    for h in beh["steps"]:
        a = h["a"]
        if a == "Obs":
            exps.append(h["exp"])
            continue
        ns = bool(h.get("ns"))
        c, k, p, ok = h.get("c", 0), h.get("k", 0), h.get("p", ""), h.get("ok", True)
        out = []
        if a == "Connect":
            kinds[c] = p
            mode = {"h1": "tls" if tls else "raw", "h2": "tlsh2" if tls else "h2", "raw": "raw"}[p]
            out = [{"a": "Connect", "c": c, "mode": mode}]
        elif a == "Send":
            if p == "H1":
                out = [{"a": "Send", "c": c, "k": k, "p": "H1"}]
                if kinds.get(c) == "h2":
                    out[0]["ns"] = True
                    out.append({"a": "Send", "c": c, "k": k, "p": "H2"})
            elif p == "H2":
                out = [{"a": "Send", "c": c, "k": k, "p": "H2"}]
            else:
                out = [{"a": "Send", "c": c, "k": k, "p": "B1", "ns": True}, {"a": "Send", "c": c, "k": k, "p": "B2"}]
        elif a == "Prefix":
            out = [{"a": "Prefix", "c": c, "k": (1, 5, 14, 18, 23)[(n + c) % 5]}]
        elif a in ("Gate", "MakeOpen"):
            out = [{"a": a, "c": c, "k": k, "ok": bool(ok)}]
        else:
            out = [{"a": a, "c": c, "k": k}]
        if ns:
            out[-1]["ns"] = True
        steps += out
        fault = a in ("CancelConnect", "Disconnect", "Trunc", "Garbage", "Prefix") or (a == "Gate" and not ok) or (a == "Connect" and p == "raw")
        if not ns:
            # probes only at settled points: after every fault (C09), once after the signal (C07)
            if (pid == "C09" and fault) or (a == "Signal"):
                steps.append({"a": "Probe"})
        last_settled = not ns
    if last_settled and (not steps or steps[-1]["a"] != "Probe"):
        steps.append({"a": "Probe"})
    for s in steps:
        for key in ("c", "k"):
            if s.get(key) == 0:
                s.pop(key)
    return {"id": f"m-{src}-{n}", "proto": cfg["proto"], "tls": tls, "acc": "duplex", "make_gated": bool(cfg["makeGated"]),
            "sig_on_make": int(cfg.get("sigOnMake", 0)), "nconn": 2, "nreq": 2, "steps": steps, "src": "model", "exp": exps}


def stage_matches(st, q):
    if st == "none":
        return q["hstart"] == 0
    if st == "started":
        return q["hstart"] != 0 and not q["hbody"]
    if st == "handler":
        return q["hbody"] and q["hret"] == ""
    if st == "respHead":
        return q["hret"] == "ok" and q["body"] == 0 and not q["complete"]
    if st == "respBody":
        return q["hret"] == "ok" and q["body"] == 5
    if st == "done":
        return q["complete"]
    if st == "failed":
        return q["hret"] == "err"
    if st == "refused":
        return q["hstart"] == 0
    return False


def drift_of(sched, recs):
    """Compares the model's expected observation after every settled step with the real one.
    Returns (compared, mismatches by field)."""
    mm = collections.Counter()
    exps = sched.get("exp") or []
    # observations after settled steps, without the ones a skipped probe step produced (probes are inserted by
    # the converter, the model knows nothing about them)
    steps = [r for r in recs if r.get("kind") == "step" and not (r["acts"] and all(a == "SkipProbe" for a in r["acts"]))]
    n = 0
    srvmap = {"running": "running", "ok": "ok", "errAccept": "erraccept", "errMake": "errmake"}
    for e, r in zip(exps, steps):
        n += 1
        if srvmap.get(e["srv"]) != r["srv"]:
            mm["srv"] += 1
        for i, ec in enumerate(e["conns"]):
            rc = r["conns"][i]
            closed_real = rc["fin"] != "" or (rc["aidx"] != 0 and rc["spawnSeq"] == 0 and r["srv"] != "running")
            if bool(ec["closed"]) != closed_real:
                mm["closed"] += 1
            if ec["told"] != rc["told"]:
                mm["told"] += 1
            for k, st in enumerate(ec["reqs"]):
                if ec["closed"] and st in ("started", "handler", "respHead", "respBody"):
                    continue   # what was in flight on a connection that is gone has no defined stage
                if k < len(rc["reqs"]) and not stage_matches(st, rc["reqs"][k]):
                    mm["req:" + st] += 1
    return n, mm


# ------------------------------------------------------------------------------------------------
def directed(pid, thorough):
    """Small fixed families for the scenario classes that need a particular shape (the walk and the model
    simulation produce them too, with lower frequency): a burst of queued connects with the signal fired by the
    make-service on its k-th call (C07); a TCP client that resets while still in the listen backlog, and a strict
    prefix of the HTTP/2 preface followed by the client going away, several lengths (C09)."""
    out = []

    def add(tag, proto, steps, **kw):
        d = {"id": f"d-{tag}-{len(out)}", "proto": proto, "tls": False, "acc": "duplex", "make_gated": False, "nconn": 3, "nreq": 2,
             "steps": steps, "src": "directed"}
        d.update(kw)
        out.append(d)

    C = lambda i, ns=False, **k: dict({"a": "Connect", "c": i}, **({"ns": True} if ns else {}), **k)
    req = lambda i, k=1: [{"a": "Send", "c": i, "k": k, "p": p, "ns": True} for p in ("H1", "H2", "B1")] + [{"a": "Send", "c": i, "k": k, "p": "B2"}]
    if pid == "C07":
        for proto in ("h1", "auto", "h2"):
            for k in (1, 2):
                for gated in (False, True):
                    # three clients queued before the server runs; the make-service fires the signal on call k
                    steps = [C(1, True), C(2, True), C(3)]
                    if gated:
                        steps += [{"a": "MakeOpen", "ok": True}] * 3
                    steps += req(1) + [{"a": "Gate", "c": 1, "k": 1, "ok": True}, {"a": "Chunk", "c": 1, "k": 1}, {"a": "Chunk", "c": 1, "k": 1},
                                       {"a": "Probe"}]
                    add("burst", proto, steps, sig_on_make=k, make_gated=gated)
                # the first request is already on the wire when the burst is accepted
                add("burst", proto, [C(1), C(2, True), C(3)] + req(2), sig_on_make=k + 1)
        # the signal while a connection is parked in protocol detection with a partial HTTP/2 preface buffered
        # (a slow HTTP/2 client): it is open and idle, it must be told and close
        for tls in (False, True):
            for n in (1, 5, 14, 18, 23):
                add("prefixsig", "auto", [C(1), {"a": "Prefix", "c": 1, "k": n}, {"a": "Signal"}, {"a": "Probe"}], tls=tls)
            add("prefixsig", "auto", [C(1), C(2)] + req(1) + [{"a": "Prefix", "c": 2, "k": 9, "ns": True}, {"a": "Signal"},
                                                            {"a": "Gate", "c": 1, "k": 1, "ok": True}, {"a": "Chunk", "c": 1, "k": 1},
                                                            {"a": "Chunk", "c": 1, "k": 1}], tls=tls)
        # the signal while a peer of a TLS listener has not started / finished its handshake (silent peer)
        for proto in ("h1", "auto"):
            add("tlsstall", proto, [C(1, mode="raw"), {"a": "Signal"}, {"a": "Probe"}], tls=True)
            add("tlsstall", proto, [C(1, True, mode="raw"), {"a": "Signal"}], tls=True)
            add("tlsstall", proto, [C(1), C(2, mode="raw")] + req(1) + [{"a": "Signal"}, {"a": "Gate", "c": 1, "k": 1, "ok": True},
                                                                       {"a": "Chunk", "c": 1, "k": 1}, {"a": "Chunk", "c": 1, "k": 1}], tls=True)
    else:
        for proto in ("h1", "auto", "h2"):
            for tls in (False, True) if proto != "h2" else (False,):
                # tcp-reset-in-backlog: alone, in front of a good client, twice in a row
                add("tcprst", proto, [{"a": "ResetConnect"}, {"a": "Probe"}, C(1), {"a": "ResetConnect", "ns": True}, {"a": "ResetConnect"},
                                       {"a": "Probe"}] + req(1) + [{"a": "Gate", "c": 1, "k": 1, "ok": True}, {"a": "Chunk", "c": 1, "k": 1},
                                                                    {"a": "Chunk", "c": 1, "k": 1}, {"a": "Probe"}], acc="tcp", tls=tls)
                add("tcprst", proto, [C(1, True), {"a": "ResetConnect", "ns": True}, C(2), {"a": "Probe"}], acc="tcp", tls=tls)
        # unix-peer-nonutf8-path: an otherwise well-behaved client whose own end is bound to a non-UTF-8 pathname
        serve = lambda i: req(i) + [{"a": "Gate", "c": i, "k": 1, "ok": True}, {"a": "Chunk", "c": i, "k": 1}, {"a": "Chunk", "c": i, "k": 1}]
        for proto in ("h1", "auto", "h2"):
            add("oddpeer", proto, [C(1, p="odd"), {"a": "Probe"}] + serve(1) + [{"a": "Probe"}], acc="unix")
        add("oddpeer", "h1", [C(1), C(2, True, p="odd")] + serve(1) + [{"a": "Probe"}] + serve(2), acc="unix")
        for tls in (False, True):
            for n in (1, 5, 14, 18, 23):
                for close in ("Disconnect", "Trunc"):
                    for ns in (False, True):
                        pre = {"a": "Prefix", "c": 2, "k": n}
                        if ns:
                            pre["ns"] = True
                        add("prefix", "auto", [C(1), C(2)] + req(1) + [pre, {"a": close, "c": 2}, {"a": "Probe"},
                                                                         {"a": "Gate", "c": 1, "k": 1, "ok": True}, {"a": "Chunk", "c": 1, "k": 1},
                                                                         {"a": "Chunk", "c": 1, "k": 1}, {"a": "Probe"}], tls=tls)
        if thorough:
            for n in (2, 9, 16, 22):
                add("prefix", "auto", [C(1), {"a": "Prefix", "c": 1, "k": n}, {"a": "Trunc", "c": 1}, {"a": "Probe"}], acc="tcp")
                add("prefix", "auto", [C(1), {"a": "Prefix", "c": 1, "k": n}, {"a": "Disconnect", "c": 1}, {"a": "Probe"}], acc="unix")
    return out


# ------------------------------------------------------------------------------------------------
def run_monitor(pid, trace_path, tag):
    r = vlib.tlc("ServerObs", f"ServerObs_{pid}.cfg", pid, workers=1, timeout=1500, xmx="6g",
                 env={"TRACE": os.path.abspath(trace_path)}, extra=["-continue"],
                 java_opts=["-Dtlc2.tool.queue.IStateQueue=StateDeque"])
    out = r.out
    viols = []
    parts = out.split("Error: Invariant ")
    for ch in parts[1:]:
        m = re.match(r"(\S+) is violated", ch)
        if not m:
            continue
        ls = re.findall(r"^/?\\?\s*l = (\d+)", ch, flags=re.M)
        if not ls:
            ls = re.findall(r"\bl = (\d+)", ch)
        if ls:
            viols.append((m.group(1), int(ls[-1])))
    if not viols and r.rc not in (0,) and "Error:" in out and "Invariant" not in out:
        vlib.log(out[-3000:])
        raise vlib.ToolError(f"monitor failed ({tag})")
    return r, viols


def key_of(inv, rec, prev=None):
    """Stable identifier of the failing scenario class: the formula, the state of the serving future, and
    the actions of the failing step that matter for that formula (C07: the signal / a probe; C09: the
    fault kinds of the step - for a probe, of the step before it).  When the serving future ended without
    an allowed cause the context is whether a connect had been given up before being accepted (that is
    what the end is attributed to), not the unrelated actions that happened to share the batch."""
    def acts_of(r):
        a = set(r.get("acts", []))
        for b in r.get("batch", []):
            if b.get("a") == "Connect" and b.get("mode") == "raw" and r.get("tls"):
                a.add("ConnectRaw")
        return a
    acts = acts_of(rec)
    if inv.startswith("C07"):
        rel = {"Signal", "Probe"}
    else:
        rel = FAULTS | {"ConnectRaw", "ListenerLost", "MakeFail"}
        if rec.get("kind") == "probe" and prev is not None:
            acts = acts_of(prev) | {"Probe"}
            rel = rel | {"Probe"}
    notable = sorted(a for a in acts if a in rel)
    where = "+".join(notable) if notable else ("quiesce" if rec.get("kind") in ("quiesce", "final") else "plain")
    if inv.startswith("C07") and "Signal" not in acts and rec.get("sig_on_make") and rec.get("sigFired"):
        where = "SignalFromMake" + ("+Probe" if "Probe" in acts else "")
    if inv == "C07_OpenToldAndClosed":
        # which kind of open connection did not close
        kinds = set()
        for cn in rec.get("conns", []):
            if cn.get("coop") and not cn.get("faulted") and cn.get("spawnSeq") and cn["spawnSeq"] < rec.get("sigSeq", 0) \
                    and not (cn.get("eof") and cn.get("fin")):
                kinds.add("sniffing-with-preface-prefix" if cn.get("prefixed") else "tls-handshake-pending" if cn.get("plain")
                          else "nothing-sent" if not any(q["sent"] for q in cn["reqs"]) else "request-in-progress-or-idle")
        if kinds:
            where = "+".join(sorted(kinds))
    if inv == "C09_Quiescent":
        # a task that never goes idle: the class is which kind of fault preceded it in the schedule
        kinds = sorted({b.get("a") for b in (rec.get("sched_steps") or []) if b.get("a") in ("Prefix", "ResetConnect")})
        where = "stalled-after-" + "+".join(kinds) if kinds else "stalled"
    if inv in ("C09_SrvStable", "C09_EndsOnlyOnAllowed") and rec.get("srv") != "running":
        # the serving future ended without an allowed cause: the class is (result, was a connect given up)
        if rec.get("oddPeers", 0) > 0 and rec.get("srv") == "erraccept":
            where = "unix-peer-nonutf8-path"
        elif rec.get("cancelled", 0) > 0 and rec.get("srv") == "erraccept":
            where = "cancelled-connect"
        else:
            where = "no-allowed-cause"
    return f"{inv}@{rec.get('srv')}/{where}"


def summarize_steps(steps):
    out = []
    for s in steps:
        t = s["a"]
        if s.get("c"):
            t += f"({s['c']}" + (f",{s['k']}" if s.get("k") else "") + (f",{s['p']}" if s.get("p") else "") + ")"
        if s.get("ok") is False:
            t += "!err"
        if s.get("mode") == "raw":
            t += ":raw"
        if s.get("ns"):
            t += "~"
        out.append(t)
    return " ".join(out)


def analyse(pid, recs, viols, verdict):
    """recs: all trace records (1-based index = position). Returns stats."""
    # schedule boundaries
    sched_of = {}
    cur = None
    scheds = {}
    for n, r in enumerate(recs, start=1):
        if r["e"] == "Reset":
            cur = r["id"]
            if r.get("hang") or r.get("harnessPanic"):
                raise vlib.ToolError(f"harness schedule {cur} hung or panicked: {r}")
            scheds[cur] = {"reset": r, "recs": []}
        else:
            scheds[cur]["recs"].append(r)
        sched_of[n] = cur
    # first violation per schedule
    first = {}
    for inv, l in viols:
        sid = sched_of.get(l)
        if sid is None:
            continue
        if sid not in first or l < first[sid][1]:
            first[sid] = (inv, l)
    by_key = collections.OrderedDict()
    for sid, (inv, l) in sorted(first.items(), key=lambda x: x[1][1]):
        rec = dict(recs[l - 1])
        rec["tls"] = scheds[sid]["reset"].get("tls")
        rec["sched_steps"] = scheds[sid]["reset"]["sched"]["steps"]
        rec["sig_on_make"] = scheds[sid]["reset"]["sched"].get("sig_on_make", 0)
        prev = None
        if l >= 2 and recs[l - 2]["e"] == "Obs":
            prev = dict(recs[l - 2])
            prev["tls"] = rec["tls"]
        k = key_of(inv, rec, prev)
        by_key.setdefault(k, []).append((sid, inv, l))
    for k, lst in by_key.items():
        sid, inv, l = lst[0]
        # prefer the shortest failing schedule as the replay object
        sid, inv, l = min(lst, key=lambda x: len(scheds[x[0]]["reset"]["sched"]["steps"]))
        sched = scheds[sid]["reset"]["sched"]
        rec = recs[l - 1]
        desc = (f"{inv} false at observation {l} of schedule {sid} ({sched['proto']}{' tls' if sched.get('tls') else ''} "
                f"{sched.get('acc')}): batch {rec.get('acts')} srv={rec.get('srv')}; {len(lst)} schedule(s) of this class; "
                f"steps: {summarize_steps(sched['steps'])}")
        verdict.violation(k, desc, {"schedule": sched, "invariant": inv, "observation": rec})
    return scheds, first, by_key


def nontrivial_count(pid, scheds):
    seen = set()
    n = 0
    pos = collections.Counter()
    for sid, s in scheds.items():
        sig = summarize_steps(s["reset"]["sched"]["steps"]) + "|" + s["reset"]["proto"] + str(s["reset"]["tls"]) + s["reset"]["acc"]
        if sig in seen:
            continue
        seen.add(sig)
        recs = s["recs"]
        if pid == "C07":
            ok = False
            for r in recs:
                if "Signal" in r["acts"]:
                    for c in r["conns"]:
                        if c["spawnSeq"] and r["sigSeq"] and c["spawnSeq"] < r["sigSeq"]:
                            ok = True
                        for q in c["reqs"]:
                            if not q["sent"]:
                                continue
                            p = ("done" if q["complete"] else "respBody" if q["body"] else "respHead" if q["head"] else
                                 "handler" if q["hbody"] else "bodyPartial" if q["hstart"] else "headPartial")
                            pos[p] += 1
                        if c["aidx"] and not any(q["sent"] for q in c["reqs"]):
                            pos["connNothingSent"] += 1
            n += ok
        else:
            faults = sum(1 for r in recs for a in r["acts"] if a in FAULTS or a == "ConnectRaw")
            faults += sum(1 for r in recs for b in r["batch"] if b.get("a") == "Connect" and b.get("mode") == "raw")
            probes = sum(1 for r in recs if r["kind"] == "probe")
            for r in recs:
                for a in r["acts"]:
                    if a in FAULTS:
                        pos[a] += 1
            n += (faults > 0 and probes > 0)
    return len(seen), n, dict(pos)


# ------------------------------------------------------------------------------------------------
def run(pid, tier, seed, t0):
    out = vlib.outdir(pid)
    verdict = vlib.Verdict(pid)
    thorough = tier == "thorough"
    certs = ensure_certs(pid)

    # 1. model checking ------------------------------------------------------------------------
    # exhaustive configurations of the tier (the first one runs with -coverage)
    model_cfgs = [f"Server_quick_{pid}.cfg"]
    if thorough:
        model_cfgs += ["Server_thorough_2conn.cfg", "Server_thorough.cfg", "Server_thorough_faults.cfg"]
    mc_cfg = model_cfgs[0]
    extra_models = {}
    mc = None
    tot_states = tot_trans = 0
    for n, cf in enumerate(model_cfgs):
        r = vlib.tlc("MC_Server", cf, pid, workers=8, coverage=(n == 0), timeout=3000 if thorough else 900)
        if r.violated or not r.finished:
            vlib.log(r.out[-4000:])
            raise vlib.ToolError(f"Server.tla ({cf}) does not satisfy {r.violated}: the specification needs attention "
                                 "(a model counterexample is not a verdict on the crate)")
        tot_states += r.distinct
        tot_trans += r.generated
        if n == 0:
            mc = r
        else:
            extra_models[cf] = {"states": r.distinct, "transitions": r.generated, "depth": r.depth}
    cov = mc.coverage()
    never = sorted(a for a, (d, t) in cov.items() if t == 0)
    live = vlib.tlc("MC_Server", "Server_live.cfg", pid, workers=8, timeout=900)
    if live.violated or not live.finished:
        vlib.log(live.out[-4000:])
        raise vlib.ToolError(f"Server.tla (Server_live.cfg) liveness: {live.violated}")
    extra_models["Server_live.cfg"] = {"states": live.distinct, "transitions": live.generated, "depth": live.depth,
                                       "temporal": ["C07_SignalReturns", "C09_AcceptNeverBlocked"]}
    asb = vlib.tlc("MC_Server", "Server_asbuilt.cfg", pid, workers=4, timeout=300)
    extra_models["Server_asbuilt.cfg"] = {"states": asb.distinct, "violated_as_expected": asb.violated,
                                          "note": "AsBuiltD8=TRUE: TLC finds the cancelled-connect end of the serving future"}
    hoi = vlib.tlc("MC_Server", "Server_hoisted.cfg", pid, workers=4, timeout=300)
    extra_models["Server_hoisted.cfg"] = {"states": hoi.distinct, "violated_as_expected": hoi.violated,
                                          "note": "Hoisted=TRUE (signal polled once per poll of the serving future), signal fired by the "
                                                  "make-service: TLC finds the accept after the signal"}
    if hoi.violated != "C07_NoAcceptAfterSignal":
        raise vlib.ToolError("hoisted-signal demonstration config did not produce the expected model counterexample")
    if asb.violated != "C09_EndsOnlyOnAllowed":
        raise vlib.ToolError("as-built demonstration config did not produce the expected model counterexample")

    # 2. behaviours from the model -------------------------------------------------------------
    nsim = (400, 150) if thorough else (70, 25)   # per TLC worker (4 workers)
    scheds = []
    seen = set()
    for cfgname, num, src in (("Server_gen.cfg", nsim[0], "p"), ("Server_gen_tls.cfg", nsim[1], "t")):
        g = vlib.tlc("MC_Server", cfgname, pid, workers=4, simulate=num, depth=400, seed=seed, timeout=600)
        for b in g.printed("REPLAY"):
            s = convert(b, len(scheds), pid, src)
            sig = json.dumps([s["proto"], s["tls"], s["make_gated"], s["sig_on_make"], s["steps"]], sort_keys=True)
            if sig in seen or not s["steps"]:
                continue
            seen.add(sig)
            scheds.append(s)
    if len(scheds) < 50:
        raise vlib.ToolError(f"TLC generated only {len(scheds)} behaviours")
    model_in = os.path.join(out, "model_schedules.ndjson")
    vlib.write_ndjson(model_in, scheds)

    # 3. the real server -----------------------------------------------------------------------
    prof = "c07" if pid == "C07" else "c09"
    traces = []

    def harness(tag, args, timeout=1500):
        p = os.path.join(out, f"trace_{tag}.ndjson")
        o = vlib.run_harness("server", args + ["--out", p, "--certdir", certs, "--scratch", out], timeout=timeout)
        traces.append((tag, p, json.loads(o.strip().splitlines()[-1])))

    harness("model", ["--in", model_in])
    dir_in = os.path.join(out, "directed_schedules.ndjson")
    vlib.write_ndjson(dir_in, directed(pid, thorough))
    harness("directed", ["--in", dir_in])
    nwalk = (3000, 1000) if thorough else (300, 100)
    harness("walk", ["--walk", "--profile", prof, "--seed", seed, "--num", nwalk[0], "--len", 24, "--protos", "h1,auto,h2"])
    harness("walk_tls", ["--walk", "--profile", prof, "--seed", seed + 1, "--num", nwalk[1], "--len", 22, "--tls", 1, "--protos", "h1,auto"])
    if not thorough:
        # a few real-socket runs in the quick tier as well (eventual outcomes only, generous real time-outs)
        harness("walk_tcp", ["--walk", "--profile", prof, "--seed", seed + 2, "--num", 8, "--len", 12, "--acc", "tcp",
                             "--protos", "h1,auto,h2"], timeout=900)
        if pid == "C09":
            harness("walk_unix", ["--walk", "--profile", prof, "--seed", seed + 3, "--num", 4, "--len", 12, "--acc", "unix",
                                  "--protos", "h1,auto,h2"], timeout=900)
    if thorough:
        for acc in ("tcp", "unix"):
            harness(f"walk_{acc}", ["--walk", "--profile", prof, "--seed", seed + 2, "--num", 90, "--len", 18, "--acc", acc,
                                    "--protos", "h1,auto,h2"], timeout=2400)
            harness(f"walk_{acc}_tls", ["--walk", "--profile", prof, "--seed", seed + 3, "--num", 40, "--len", 16, "--acc", acc,
                                        "--tls", 1, "--protos", "h1,auto"], timeout=2400)

    truncated = [tag for tag, _, info in traces if info.get("truncated")]
    # 4. the monitor decides -------------------------------------------------------------------
    all_path = os.path.join(out, "trace_all.ndjson")
    with open(all_path, "w") as f:
        for _, p, _ in traces:
            f.write(open(p).read())
    recs = vlib.read_ndjson(all_path)
    mon, viols = run_monitor(pid, all_path, "all")
    if truncated and not viols:
        raise vlib.ToolError(f"harness runs {truncated} were cut short after repeated stalls but the monitor saw no violation")
    if not viols and mon.distinct != len(recs):
        # (a schedule is followed up to its first falsifying observation only, so with violations fewer)
        vlib.log(mon.out[-3000:])
        raise vlib.ToolError(f"monitor looked at {mon.distinct} of {len(recs)} records")
    sched_map, first, by_key = analyse(pid, recs, viols, verdict)

    # 5. drift (model schedules only) ----------------------------------------------------------
    compared, mism = 0, collections.Counter()
    by_id = {s["id"]: s for s in scheds}
    for sid, s in sched_map.items():
        if sid in by_id:
            n, mm = drift_of(by_id[sid], s["recs"])
            compared += n
            mism.update(mm)
    skipped = sum(1 for r in recs if r["e"] == "Obs" for a in r["acts"] if a.startswith("Skip"))

    # 6. evidence --------------------------------------------------------------------------------
    distinct_scheds, nontrivial, positions = nontrivial_count(pid, sched_map)
    samples = []
    for sid in list(sched_map)[:2] + [s for s in sched_map if s.startswith("w-")][:2] + [s for s in sched_map if "tls" in s][:1]:
        sc = sched_map[sid]["reset"]["sched"]
        samples.append({"id": sid, "proto": sc["proto"], "tls": sc.get("tls"), "acceptor": sc.get("acc"),
                        "steps": summarize_steps(sc["steps"]),
                        "final_srv": sched_map[sid]["recs"][-1]["srv"] if sched_map[sid]["recs"] else None})
    # extension stages (own specs, same verdict): the in-process duplex transport (Duplex.tla) and the lazily
    # handshaking TLS streams (TlsStream.tla); each registers only the clauses that belong to this property's text
    import x_tlsstream
    tls_stage = x_tlsstream.stage(pid, tier, seed, verdict)
    duplex_stage = __import__("x_duplex").stage(pid, tier, seed, verdict) if pid == "C09" else None
    conn_info = __import__("x_conninfo").stage(pid, tier, seed, verdict)   # ConnInfo.tla: accept -> make-service -> serve, info per connection
    code, unlisted = verdict.finish()
    coverage = {
        "tls_stream_model": tls_stage, "duplex_transport": duplex_stage, "conn_info_model": conn_info,
        "states": tot_states, "transitions": tot_trans, "depth": mc.depth, "exhaustive": False,
        "exhaustive_note": "the bounded model is enumerated completely by TLC; the schedules replayed on the real server are a generated sample of its behaviours plus random walks",
        "model_config_with_coverage": mc_cfg, "model_config_states": mc.distinct, "model_configs": model_cfgs, "model_properties": MODEL_PROPS[pid], "other_model_runs": extra_models,
        "tlc_coverage": {a: {"distinct": d, "taken": t} for a, (d, t) in sorted(cov.items())},
        "tlc_actions_never_taken": never,
        "tlc_never_taken_note": "expected by configuration: Settled belongs to the generation configs only; the C07 quick "
                                "configuration has MaxFaults=0 (no CancelConnect/Disconnect/Trunc/Garbage/ConnFails), the C09 quick "
                                "configuration has an ungated make-service (no Make/MakeOpen); each of those actions is taken in "
                                "the other property's quick configuration (coverage is measured on the quick configuration only)",
        "traces_validated_against_impl": len(sched_map),
        "trace_records": len(recs) - len(sched_map),
        "monitor_invariants": INV[pid],
        "evaluations": (len(recs) - len(sched_map)) * len(INV[pid]),
        "distinct_nontrivial": nontrivial,
        "distinct_schedules": distinct_scheds,
        "rule": ("schedules = TLC-simulated behaviours of Server.tla (settle discipline, uniform signal position) + seeded random "
                 "walks over the actions enabled in the REAL server state; distinct = different (config, step sequence); "
                 + ("non-trivial = the signal was processed while at least one connection had a live driver"
                    if pid == "C07" else "non-trivial = at least one per-connection fault was injected and at least one probe client ran")),
        "positions": positions,
        "schedule_sources": {tag: info for tag, _, info in traces},
        "samples": samples,
        "failing_schedules": len(first),
        "violation_keys": {k: len(v) for k, v in by_key.items()},
        "drift": {"compared_observations": compared, "mismatches": dict(mism), "steps_not_applicable_on_real": skipped,
                  "note": "model expectation vs real observation after each settled step of the model-generated schedules; "
                          "informational, never a verdict"},
        "repo_tree": vlib.repo_tree_id(),
    }
    vlib.write_evidence(pid, tier, seed, "model_checking", coverage, ASSUMPTIONS, time.time() - t0, unlisted)
    if mism:
        vlib.log(f"DRIFT property={pid}: {dict(mism)} over {compared} compared observations")
    vlib.log(f"[{pid}] model {tot_states} states; {len(sched_map)} schedules / {len(recs)} records on the real server; "
             f"{len(first)} failing schedule(s), {len(by_key)} class(es); {time.time()-t0:.0f}s")
    return code


def replay(pid, path):
    obj = json.load(open(path))
    if isinstance(obj.get("replay"), dict) and obj["replay"].get("kind") == "conninfo-trace":
        return __import__("x_conninfo").replay(pid, obj)
    _k = obj.get("replay", obj).get("kind") if isinstance(obj.get("replay", obj), dict) else None
    if _k == "tlsstream-ops":
        import x_tlsstream
        return x_tlsstream.replay(pid, obj)
    if _k == "duplex-trace":
        import x_duplex
        return x_duplex.replay(pid, obj)
    rp = obj.get("replay", obj)
    sched = rp["schedule"] if "schedule" in rp else rp
    out = vlib.outdir(pid)
    certs = ensure_certs(pid)
    inp = os.path.join(out, "replay_in.ndjson")
    vlib.write_ndjson(inp, [sched])
    tr = os.path.join(out, "replay_trace.ndjson")
    vlib.run_harness("server", ["--in", inp, "--out", tr, "--certdir", certs, "--scratch", out], timeout=600)
    recs = vlib.read_ndjson(tr)
    mon, viols = run_monitor(pid, tr, "replay")
    verdict = vlib.Verdict(pid)
    # keep earlier violation files of a normal run intact: replay writes its own
    _, first, by_key = analyse(pid, recs, viols, verdict)
    for r in recs:
        if r["e"] == "Obs":
            vlib.log(f"  {r['kind']:8} {r['acts']} srv={r['srv']} sig={r['sigFired']} events={r['events']}")
    code, _ = verdict.finish()
    if code == 0:
        vlib.log(f"[{pid}] replay: property held on this schedule")
    return code
