"""Protocol upgrades through the real stack end to end (spec/Upgrade.tla): a stage of C02, C18, C01 and C13.

`stage(pid, tier, seed, verdict)` is called by the host check (checks/c_pool.py for C02, checks/c_stream.py for C18, checks/c_e2e.py for
C01, checks/c_wire.py for C13) and returns a dict of measured numbers that the host embeds in its evidence under "upgrade_model".

Pipeline of one call:
  1. TLC model-checks Upgrade.tla (quick: Upgrade_quick.cfg, Upgrade_cov.cfg with -coverage 1, the liveness config Upgrade_live_quick.cfg,
     Upgrade_dial.cfg (held dials; C18: Upgrade_raw_quick.cfg instead); thorough: + all pairs, two tunnel operations, three requests, held
     dials, with_http1 server, raw client, liveness)
     and the seeded-defect variants of the model that concern `pid`, each of which MUST be refuted (vacuity guard), and the defence-in-depth
     variant `half` which must NOT be.  A failing model check of the intended design is a tool error.
  2. TLC generates scenarios (simulation of the quiescent discipline: pooled client, raw client) with the model's expectation of what is
     observable after every step; each is given static dimensions the expectation does not depend on (client protocol, client stack,
     server protocol, fragmentation of the client's bytes, reader buffer size, TLS) and harness bin `upgrade` executes it on the REAL
     `hyperdriver::Client` <-> REAL `hyperdriver::Server` over the duplex transport.
  3. The harness adds seeded random scenarios larger than the model bounds.
  4. spec/UpgradeObs.tla (TLC) evaluates the clauses U1..U5 on every recorded run: its findings decide.  Each property gets ONLY the
     clauses that belong to its text (CLAUSES below); everything else - clauses of the other three properties, timing of the futures,
     what a tunnel does after the shutdown signal, the pool's idle list, differences to the model's expectation - is DRIFT.
  5. Self-test: a corrupted copy of a real recorded run rides along and must be flagged with the expected key; otherwise tool error.
`replay(pid, obj)` re-executes a replay object of kind "upgrade-scenario" on the current tree through the same monitor.
"""
import collections
import concurrent.futures
import json
import os
import random
import re
import subprocess
import time

import vlib

CLAUSES = {
    "C02": {"U1-reused-after-upgrade", "U1-handled-after-upgrade"},
    "C18": {"U2-bytes-altered", "U2-bytes-lost", "U2-bytes-duplicated", "U2-early-bytes-lost", "U2-early-bytes-duplicated", "U2-bytes-invented",
            "U2-bytes-missing", "U2-eof-lost", "U2-eof-invented", "U2-error-invented", "U2-write-failed"},
    "C01": {"U3-request-failed", "U3-request-stalled", "U3-response-mismatched", "U3-response-altered", "U3-request-not-handled-once",
            "U3-request-altered", "U3-upgrade-headers-lost", "U5-on-unresolved", "U5-on-failed"},
    "C13": {"U4-h2-connection-headers", "U4-h2-switch", "U4-h2-connect-not-rejected", "U4-h1-target", "U4-h1-host", "U4-connection-protocol"},
}
# (defect of the model, invariants / "<temporal>" that may refute it, properties whose quick tier runs it)
BUGS = {
    "isopen": ("`is_open` stays true after the connection carried an accepted upgrade", {"U1_NoSendAfterUpgrade"}, {"C02"}),
    "handback": ("an upgraded connection is handed back to the idle list and handed out without a second look", {"U1_NoSendAfterUpgrade"}, {"C02"}),
    "dupprefix": ("the sniffer's rewind prefix is replayed a second time into the tunnel", {"U2_ServerGetsExactly"}, {"C18"}),
    "swallow": ("the bytes behind the request head in hyper's read buffer are dropped at the upgrade", {"U2_ServerGetsExactly", "U2_QuietAllDelivered"}, {"C18"}),
    "noeof": ("the end of the stream is not propagated through a tunnel", {"U2_QuietAllDelivered"}, {"C18"}),
    "crosstalk": ("the server answers a request with the response of its predecessor", {"U3_Matched"}, {"C01"}),
    "nowake": ("the server's `upgrade::on` future is not resolved although the 101 was exchanged", {"U5_OnMatchesAnswer"}, {"C01"}),
    "lostwake": ("a 101 that was held back on the wire is never looked at again (liveness)", {"<temporal>"}, {"C01"}),
    "h2hdr": ("`Connection` / `Upgrade` stay on a request sent over HTTP/2", {"U4_NoConnectionHeadersOnH2"}, {"C13"}),
    "h2switch": ("an HTTP/2 exchange switches protocols", {"U4_NoSwitchOnH2"}, {"C13"}),
    "h2connect": ("CONNECT is sent over an HTTP/2 connection", {"U4_ConnectRejectedOnH2"}, {"C13"}),
}
ACTIONS = ["Issue", "Acquire", "Dial", "DialDone", "Net", "Sniff", "SrvRead", "Parse", "TunRead", "SrvClose", "CRecv", "WhenReady", "Open", "CW", "SW", "CEnd", "SEnd",
           "Shutdown"]
MODEL_PROPS = ["TypeOK", "U1_NoSendAfterUpgrade", "U1_NotPooledAfterUpgrade", "U1_DiscardedOnlyIfDead", "U2_ServerGetsExactly", "U2_ClientGetsExactly",
               "U2_ParserSeesNoTunnelByte", "U2_EofOnlyAfterEnd", "U2_QuietAllDelivered", "U3_Matched", "U3_HeadsWhole", "U3_NoSpuriousFailure",
               "U3_FailedOnlyIfExcused", "U3_ResponseAsProduced", "U4_NoConnectionHeadersOnH2", "U4_NoSwitchOnH2", "U4_ConnectRejectedOnH2",
               "U5_OnMatchesAnswer", "U5_OnResolves (liveness)", "U5_Completes (liveness)", "U5_TunnelDrains (liveness)"]
ASSUMPTIONS = [
    "upgrade: hyper 1.6 (HTTP/1 dispatcher, `hyper::upgrade`) is trusted; the driver runs every scenario on a paused current-thread runtime and lets "
    "all tasks settle after every step, so of all interleavings of the model only the quiescent ones are executed on the real stack (the model "
    "itself is checked over all of them); fragmentation of the client's bytes is produced by a relay between the two halves of a connection.",
    "upgrade: tunnel bytes are numbered modulo 251 per (request, direction); a loss of an exact multiple of 251 bytes shows only in the count.",
    "upgrade: what an upgraded tunnel does after the graceful shutdown signal is not decided by any property text: observed, reported as drift.",
]


def _tier(tier, pid):
    if tier == "quick":
        bugs = [b for b, (_, _, pids) in BUGS.items() if pid in pids]
        models = [("Upgrade_quick.cfg", 2, False), ("Upgrade_cov.cfg", 1, True), ("Upgrade_live_quick.cfg", 1, False)]
        models.append(("Upgrade_raw_quick.cfg", 1, False) if pid == "C18" else ("Upgrade_dial.cfg", 2, False))
        if pid == "C02":
            models.append(("Upgrade_half.cfg", 1, False))
        return dict(models=models, bugs=bugs, sim=260, sim_raw=90, depth=200, variants=2, random=120, pool=4, mc_timeout=600, keep=(150, 60))
    return dict(models=[("Upgrade_quick.cfg", 2, False), ("Upgrade_cov.cfg", 1, True), ("Upgrade_thorough.cfg", 4, False), ("Upgrade_thorough2.cfg", 4, False),
                        ("Upgrade_thorough3.cfg", 4, False), ("Upgrade_dial.cfg", 2, False), ("Upgrade_dial_thorough.cfg", 4, False), ("Upgrade_h1.cfg", 2, False),
                        ("Upgrade_raw_quick.cfg", 1, False), ("Upgrade_raw.cfg", 4, False), ("Upgrade_rawh1.cfg", 2, False), ("Upgrade_rawthorough.cfg", 4, False),
                        ("Upgrade_live.cfg", 2, False), ("Upgrade_liveraw.cfg", 1, False), ("Upgrade_half.cfg", 1, False)],
                bugs=list(BUGS), sim=5000, sim_raw=2000, depth=200, variants=3, random=4000, pool=2, mc_timeout=2400, keep=(2500, 1000))


def _d(pid):
    d = os.path.join(vlib.outdir(pid), "upgrade")
    os.makedirs(d, exist_ok=True)
    return d


# ------------------------------------------------------------------------------------------------
def _coverage(r):
    """per-action counts from -coverage; actions under a quantifier are reported with the location of the quantified formula"""
    src = open(os.path.join(vlib.SPEC, "Upgrade.tla")).read().splitlines()
    cov = collections.Counter()
    for m in re.finditer(r"<(\w+) line \d+, col \d+ to line \d+, col \d+ of module Upgrade(?: \((\d+) (\d+) (\d+) (\d+)\))?>: (\d+):(\d+)", r.out):
        name = m.group(1)
        if m.group(2):
            text = src[int(m.group(2)) - 1][int(m.group(3)) - 1:int(m.group(5))]
            mm = re.search(r":\s*(\w+)\(", text) or re.search(r"(\w+)", text)
            name = mm.group(1) if mm else name
        cov[name] += int(m.group(7))
    return cov


def _model(pid, cfg, workers, cov, timeout):
    r = vlib.tlc("MC_Upgrade", cfg, pid, workers=workers, timeout=timeout, coverage=cov, xmx="6g")
    if r.violated or r.rc != 0 or not r.finished:
        vlib.log(r.out[-3000:])
        raise vlib.ToolError(f"Upgrade.tla ({cfg}) does not satisfy {r.violated or 'its properties'}: the specification needs attention "
                             "(a model counterexample is not a verdict on the crate)")
    return r


def _bug(pid, b):
    r = vlib.tlc("MC_Upgrade", f"Upgrade_bug_{b}.cfg", pid, workers=1, timeout=600, xmx="3g")
    got = r.violated or ("<temporal>" if r.rc == 13 else None)
    if got not in BUGS[b][1]:
        vlib.log(r.out[-2000:])
        raise vlib.ToolError(f"vacuity guard: the model with seeded defect '{b}' is not refuted as expected (TLC: {got})")
    r.violated = got
    return r


def _gen(pid, cfg, num, depth, seed):
    # one worker: the simulation is then a function of the seed
    r = vlib.tlc("MC_Upgrade", cfg, pid, workers=1, simulate=num, depth=depth, seed=seed, timeout=1500, xmx="4g")
    scn = r.printed("SCN")
    if r.violated or not scn:
        vlib.log(r.out[-3000:])
        raise vlib.ToolError(f"generation config {cfg} produced no scenarios")
    seen, out = set(), []
    for s in scn:
        k = json.dumps([s["reqs"], s["hold"], s.get("dhold"), s["steps"]], sort_keys=True)
        if k not in seen:
            seen.add(k)
            out.append(s)
    out.sort(key=lambda s: json.dumps([s["reqs"], s["hold"], s.get("dhold"), s["steps"]], sort_keys=True))     # (print order is not deterministic)
    return out, r


MKCERTS = r'''
set -e
cd "$1"
openssl genpkey -algorithm EC -pkeyopt ec_paramgen_curve:P-256 -out ca.key 2>/dev/null
openssl req -x509 -new -key ca.key -sha256 -days 30 -subj "/CN=verif upgrade CA" -addext "basicConstraints=critical,CA:TRUE" \
  -addext "keyUsage=critical,keyCertSign,cRLSign" -out ca.pem
openssl genpkey -algorithm EC -pkeyopt ec_paramgen_curve:P-256 -out match.key 2>/dev/null
openssl req -new -key match.key -subj "/CN=match leaf" -out match.csr
printf "basicConstraints=CA:FALSE\nkeyUsage=critical,digitalSignature\nextendedKeyUsage=serverAuth\nsubjectAltName=DNS:up.verif.test\n" > match.ext
openssl x509 -req -in match.csr -CA ca.pem -CAkey ca.key -CAcreateserial -days 30 -sha256 -extfile match.ext -out match.pem 2>/dev/null
'''


def _certs(pid):
    d = os.path.join(_d(pid), "certs")
    os.makedirs(d, exist_ok=True)
    p = subprocess.run(["bash", "-c", MKCERTS, "mkcerts", d], stdout=subprocess.PIPE, stderr=subprocess.STDOUT, text=True, timeout=120)
    if p.returncode != 0 or not os.path.exists(os.path.join(d, "match.pem")):
        vlib.log(p.stdout[-2000:])
        raise vlib.ToolError("openssl could not generate the test certificates")
    return d


def _harness(pid, args, timeout=3000):
    so = vlib.run_harness("upgrade", args, timeout=timeout)
    return json.loads(so.strip().splitlines()[-1])


# ------------------------------------------------------------------------------------------------
CUTS = [[], [1], [3], [5, 7], [24], [1, 1, 1, 1, 1, 1, 1, 1], [40], [2, 60]]
PIECES = [0, 0, 0, 1, 7]
RBUFS = [1, 2, 7, 4096]


def _scenarios(pool_scn, raw_scn, seed, nvar, keep):
    """static dimensions for the generated scenarios; the model's expectation does not depend on them"""
    rng = random.Random(seed * 7919 + 17)
    out = []
    rng.shuffle(pool_scn)
    rng.shuffle(raw_scn)
    sid = 0
    for s in pool_scn[:keep[0]]:
        h2 = any(r["kind"].startswith("h2") for r in s["reqs"])
        combos = [("auto", "auto")] if h2 else [("auto", "auto"), ("h1", "auto"), ("auto", "h1"), ("h1", "h1")]
        for v in range(nvar):
            cl, sv = combos[(v + rng.randrange(len(combos))) % len(combos)]
            sid += 1
            stack = "literal" if rng.randrange(12) == 0 else ("pool" if rng.randrange(2) else "client")
            # (a held server-to-client direction would also hold the TLS handshake: the expectation assumes the request reaches the server)
            out.append(dict(id=sid, src="model", client=cl, stack=stack, server=sv, tls=rng.randrange(5) == 0 and not s["hold"], cut=rng.choice(CUTS), piece=rng.choice(PIECES),
                            rbuf=rng.choice(RBUFS), hold=s["hold"], dhold=s.get("dhold", []), reqs=s["reqs"], steps=s["steps"], exp=s["exp"]))
    for s in raw_scn[:keep[1]]:
        for v in range(nvar):
            sid += 1
            out.append(dict(id=sid, src="model", client="raw", stack="client", server=("auto", "h1")[(v + rng.randrange(2)) % 2], tls=False, cut=rng.choice(CUTS),
                            piece=rng.choice(PIECES), rbuf=rng.choice(RBUFS), hold=s["hold"], reqs=s["reqs"], steps=s["steps"], exp=s["exp"]))
    return out


FIXED = [   # hand-made scenarios that ride along in every run (ids 900001..)
    dict(client="auto", stack="literal", server="auto", cut=[], rbuf=4096, hold=[], reqs=[("up", 0), ("plain", 0)],
         steps=[("Issue", 1), ("CW", 1, 5), ("SW", 1, 5), ("Issue", 2), ("CShut", 1), ("SShut", 1)]),
    dict(client="h1", stack="literal", server="h1", cut=[3], rbuf=1, hold=[1], reqs=[("up", 0), ("plain", 0)],
         steps=[("Issue", 1), ("SW", 1, 5), ("Open", 1), ("CW", 1, 4), ("Issue", 2)]),
    dict(client="auto", stack="pool", server="auto", cut=[1, 1, 1], rbuf=2, hold=[], reqs=[("plain", 0), ("up", 0), ("plain", 0), ("refuse", 0), ("plain", 0)],
         steps=[("Issue", 1), ("Issue", 2), ("CW", 2, 3), ("Issue", 3), ("Issue", 4), ("Issue", 5), ("SW", 2, 2)]),
    dict(client="auto", stack="pool", server="auto", cut=[], rbuf=64, hold=[], reqs=[("h2plain", 0), ("up", 0), ("h2up", 0), ("h2connect", 0), ("plain", 0)],
         steps=[("Issue", 1), ("Issue", 2), ("Issue", 3), ("Issue", 4), ("Issue", 5)]),
    dict(client="raw", stack="client", server="auto", cut=[5], rbuf=2, hold=[], reqs=[("up", 7)], steps=[("Issue", 1), ("CW", 1, 3), ("SW", 1, 3), ("SShut", 1)]),
    dict(client="raw", stack="client", server="auto", cut=[24], rbuf=4096, hold=[1], reqs=[("connect", 300)],
         steps=[("Issue", 1), ("SW", 1, 40), ("CW", 1, 100), ("Open", 1), ("CShut", 1)]),
    dict(client="raw", stack="client", server="h1", cut=[1, 1, 1], rbuf=3, hold=[1], reqs=[("connect", 30), ("up", 0)],
         steps=[("Issue", 1), ("SW", 1, 4), ("Open", 1), ("Issue", 2), ("CShut", 2), ("SW", 2, 2)]),
    dict(client="auto", stack="client", server="auto", cut=[], rbuf=4096, hold=[1], reqs=[("up", 0), ("plain", 0), ("plain", 0)],
         steps=[("Issue", 1), ("Issue", 2), ("Shutdown",), ("SW", 1, 2), ("Open", 1), ("CW", 1, 3), ("Issue", 3), ("SW", 1, 2)]),
    # a request WAITS (its own dial is held) while another request's connection is taken over by an upgrade: the waiter must not get it
    dict(client="auto", stack="pool", server="auto", cut=[], rbuf=4096, hold=[], dhold=[1], reqs=[("plain", 0), ("up", 0), ("plain", 0)],
         steps=[("Issue", 1), ("Issue", 2), ("CW", 2, 3), ("Open", 1), ("Issue", 3)]),
    dict(client="h1", stack="client", server="h1", cut=[3], rbuf=7, hold=[], dhold=[1, 3], reqs=[("up", 0), ("connect", 0), ("plain", 0), ("refuse", 0)],
         steps=[("Issue", 1), ("Issue", 2), ("Issue", 3), ("SW", 2, 3), ("Open", 1), ("Open", 3), ("Issue", 4)]),
    dict(client="auto", stack="client", server="auto", cut=[1], rbuf=2, hold=[2], dhold=[1], reqs=[("plain", 0), ("up", 0), ("up", 0)],
         steps=[("Issue", 1), ("Issue", 2), ("SW", 2, 4), ("Open", 2), ("Issue", 3), ("Open", 1), ("CW", 2, 2)]),
]


def _fixed(tls_ok):
    out = []
    for i, f in enumerate(FIXED):
        for tls in ([False, True] if tls_ok and f["client"] != "raw" and i < 3 else [False]):
            steps = []
            for st in f["steps"]:
                a = st[0]
                steps.append({"a": a, "r": st[1] if len(st) > 1 and a != "Open" else 0, "n": st[2] if len(st) > 2 else 0, "c": st[1] if a == "Open" else 0})
            out.append(dict(id=900001 + len(out), src="fixed", client=f["client"], stack=f["stack"], server=f["server"], tls=tls, cut=f["cut"], piece=0, rbuf=f["rbuf"],
                            hold=f["hold"], dhold=f.get("dhold", []), reqs=[{"kind": k, "early": e} for k, e in f["reqs"]], steps=steps))
    return out


# ------------------------------------------------------------------------------------------------
def _monitor(pid, trace, nrecs, tag):
    r = vlib.tlc_trace("UpgradeObs", "UpgradeObs.cfg", pid, trace, timeout=2400, xmx="6g")
    if r.violated == "Sane":
        raise vlib.ToolError("monitor: malformed trace record")
    if not r.finished or r.distinct != nrecs + 1:
        vlib.log(r.out[-3000:])
        raise vlib.ToolError(f"monitor ({tag}) looked at {r.distinct - 1} of {nrecs} records")
    v, d, s = r.printed("VIOL"), r.printed("DRIFT"), r.printed("STATS")
    if len(v) != 1 or len(d) != 1 or len(s) != 1:
        raise vlib.ToolError(f"monitor ({tag}) printed {len(v)}/{len(d)}/{len(s)} reports")
    return v[0], d[0], s[0], r


def _off(r, d):
    return (r * 37 + d * 101) % 251


def _corrupt(rec, pid):
    """A corrupted copy of a real run that the monitor must flag for this property -> (record, expected key, what) or None"""
    rec = json.loads(json.dumps(rec))
    s = rec["scn"]
    if rec.get("aborted") or rec["panics"]:
        return None
    raw = s["client"] == "raw"
    kc = "raw-client" if raw else f"{s['client']}-{s['stack']}"
    ks = f"{s['server']}-server" + ("-tls" if s["tls"] else "")
    if pid == "C02":
        for c in rec["fin"]["conns"]:
            if c["sends"] and not c["up"]:
                c["sends"][-1]["after"] = True
                return rec, f"upgrade/U1-reused-after-upgrade/{kc}", "a send is recorded as made on a connection after its accepted upgrade"
    elif pid == "C18":
        for i, q in enumerate(rec["end"]["rq"]):
            r = i + 1
            if q["sr"]["n"] >= 2 and len(q["sr"]["runs"]) == 1 and not any(st["a"] in ("CDrop", "SDrop") and st["r"] == r for st in s["steps"]):
                early = s["reqs"][i]["early"]
                for o in rec["obs"] + [rec["end"]]:
                    x = o["rq"][i]["sr"]
                    if x["n"] >= 1:
                        x["n"] -= 1
                        x["runs"] = [[(_off(r, 0) + 1) % 251, x["n"]]] if x["n"] else []
                what = "early-bytes-lost" if early > 0 else "bytes-lost"
                return rec, f"upgrade/U2-{what}/{ks}/{rec['kcut']}", "the first byte the server read from the tunnel is removed from the record"
    elif pid == "C01":
        for q in rec["fin"]["reqs"]:
            if q["st"] == "resp" and q["hrid"] == q["r"]:
                q["hrid"] = q["r"] + 1
                return rec, f"upgrade/U3-response-mismatched/{kc}/{ks}", "a response is recorded with the id of another request"
    elif pid == "C13":
        for h in rec["fin"]["handles"]:
            if h["ver"] == "h2":
                h["up"] = "verif"
                return rec, f"upgrade/U4-h2-connection-headers/{kc}", "an HTTP/2 request is recorded as seen with an Upgrade header by the server"
    return None


def _self_test(pid, recs):
    for rec in recs:
        got = _corrupt(rec, pid)
        if got:
            bad, want, what = got
            bad["scn"]["src"] = "self-test"
            bad["scn"]["id"] = 999999
            bad["exp"] = []
            return bad, want, what
    raise vlib.ToolError("self-test: no recorded run is suitable for corruption")


# ------------------------------------------------------------------------------------------------
def _steps_text(s):
    out = []
    for st in s["steps"]:
        a = st["a"]
        out.append(f"{a}({st['c']})" if a == "Open" else a if a == "Shutdown" else f"{a}({st['r']},{st['n']})" if a in ("CW", "SW") else f"{a}({st['r']})")
    return " ".join(out)


def _summ(rec, r=0):
    s = rec["scn"]
    t = (f"[{s['src']} #{s['id']}; client {s['client']}/{s['stack']}, server {s['server']}{' tls' if s['tls'] else ''}, cut {s['cut'] or 'none'}, piece {s['piece']}, "
         f"rbuf {s['rbuf']}, hold {s['hold']}{', dial held ' + str(s['dhold']) if s.get('dhold') else ''}] requests {[(q['kind'], q['early']) if q['early'] else q['kind'] for q in s['reqs']]}; steps: {_steps_text(s)}")
    if rec.get("aborted"):
        return t + "; the run was aborted (panic): " + "; ".join(rec.get("panicText", []))[:300]
    if 1 <= r <= len(rec["fin"]["reqs"]):
        q = rec["fin"]["reqs"][r - 1]
        e = rec["end"]["rq"][r - 1]
        t += (f"; request {r}: {q['st']} status {q['sc']} over {q['ver'] or '?'} on client connection {e['c']} / server connection {q['s']}, x-rid {q['hrid']}, "
              f"body {q['body']!r}, upgrade::on client {q['con']} {q['conerr']!r} server {q['son']} {q['sonerr']!r}, error {q['err']!r}; tunnel: client wrote "
              f"{e['cw']['w']} ({e['cw']['ws']}), server read {e['sr']['n']} runs {e['sr']['runs'][:6]} eof {e['sr']['eof']}; server wrote {e['sw']['w']} "
              f"({e['sw']['ws']}), client read {e['cr']['n']} runs {e['cr']['runs'][:6]} eof {e['cr']['eof']}; handler saw "
              f"{[h for h in rec['fin']['handles'] if h['r'] == r][:2]}")
    else:
        t += f"; connections: {rec['fin']['conns']}"
    return t[:1800]


def _scn_of(rec):
    s = dict(rec["scn"])
    s["exp"] = rec.get("exp", [])
    return s


def _classify(pid, viol, recs):
    """-> (mine {key: [v]}, other {key: n}, drift {key: n}); l is the 1-based record index"""
    mine, other, drift = collections.OrderedDict(), collections.Counter(), collections.Counter()
    own = CLAUSES[pid]
    oth = set().union(*[c for p, c in CLAUSES.items() if p != pid])
    for v in viol:
        rec = recs[v["l"] - 1]
        if rec["scn"]["src"] == "self-test":
            v["selftest"] = True
            continue
        if v["c"] in own:
            mine.setdefault(v["key"], []).append(v)
        elif v["c"] in oth:
            other[v["key"]] += 1
        else:
            drift[v["key"]] += 1
    return mine, other, drift


def _report(pid, viol, recs, verdict):
    mine, other, drift = _classify(pid, viol, recs)
    for key, lst in mine.items():
        v = min(lst, key=lambda v: (len(recs[v["l"] - 1]["scn"]["steps"]), len(recs[v["l"] - 1]["scn"]["reqs"]), v["l"]))    # the shortest failing scenario
        rec = recs[v["l"] - 1]
        desc = (f"upgrade: clause {key} false{' for request ' + str(v['r']) if v['r'] else ''}{' after step ' + str(v['i']) if v['i'] else ''}; "
                f"{'at least ' if len(lst) >= 12 else ''}{len(lst)} run(s) in this class; {_summ(rec, v['r'])}")
        obj = {"kind": "upgrade-scenario", "key": key, "scenario": _scn_of(rec), "request": v["r"], "step": v["i"],
               "observed": {"end": rec["end"], "fin": rec["fin"]} if not rec.get("aborted") else {"aborted": True, "panicText": rec.get("panicText")}}
        verdict.violation(key, desc, obj)
    return {k: len(v) for k, v in mine.items()}, dict(other), dict(drift)


def stage(pid, tier, seed, verdict):
    t0 = time.time()
    if pid not in CLAUSES:
        raise vlib.ToolError("x_upgrade.stage: pid must be one of C02 C18 C01 C13")
    cfg = _tier(tier, pid)
    nomodel = bool(os.environ.get("VERIF_UPGRADE_DEV_NOMODEL"))       # development only (mutant trials): skip the pure model runs
    if nomodel:
        cfg.update(models=[], bugs=[])
    d = _d(pid)
    vlib.build_harness("upgrade")
    t_build = time.time() - t0
    ex = concurrent.futures.ThreadPoolExecutor(max_workers=cfg["pool"])
    f_gen = ex.submit(_gen, pid, "Upgrade_gen.cfg", cfg["sim"], cfg["depth"], seed)
    f_raw = ex.submit(_gen, pid, "Upgrade_gen_raw.cfg", cfg["sim_raw"], cfg["depth"], seed)
    f_models = [(c, ex.submit(_model, pid, c, w, cov, cfg["mc_timeout"])) for c, w, cov in cfg["models"]]
    f_bugs = {b: ex.submit(_bug, pid, b) for b in cfg["bugs"]}
    try:
        # 3. random scenarios do not depend on TLC: they run while TLC generates
        certs = _certs(pid)
        tr_rand = os.path.join(d, "trace_random.ndjson")
        s_rand = _harness(pid, ["random", "--seed", seed, "--runs", cfg["random"], "--out", tr_rand, "--certs", certs])
        # 2. scenarios from the model -> the real stack
        pool_scn, r_gen = f_gen.result()
        raw_scn, r_raw = f_raw.result()
        scns = _scenarios(pool_scn, raw_scn, seed, cfg["variants"], cfg["keep"]) + _fixed(True)
        if len(scns) < 40:
            raise vlib.ToolError(f"TLC generated only {len(scns)} scenarios")
        scn_in = os.path.join(d, "scenarios.ndjson")
        vlib.write_ndjson(scn_in, scns)
        tr_model = os.path.join(d, "trace_model.ndjson")
        s_model = _harness(pid, ["run", "--in", scn_in, "--out", tr_model, "--certs", certs])
        # 4. the monitor decides (5. self-test: a corrupted copy of a real run rides along as the first record)
        recs = vlib.read_ndjson(tr_model) + vlib.read_ndjson(tr_rand)
        st_rec, st_want, st_what = _self_test(pid, recs)
        all_recs = [st_rec] + recs          # (first: the monitor keeps at most PerKey findings of one key in full)
        tr_all = os.path.join(d, "trace_all.ndjson")
        vlib.write_ndjson(tr_all, all_recs)
        viol_all, drift_all, stats, mon = _monitor(pid, tr_all, len(all_recs), "all")
        counts, other, drift_keys = _report(pid, viol_all, all_recs, verdict)
        st_viol = sorted({v["key"] for v in viol_all if v.get("selftest")})
        if st_want not in st_viol:
            raise vlib.ToolError(f"self-test: the monitor does not flag a corrupted record (expected {st_want}, got {st_viol})")
        if stats["nviol"] > len(viol_all) or stats["ndrift"] > len(drift_all):
            vlib.log(f"[{pid}] upgrade: the monitor kept {len(viol_all)} of {stats['nviol']} falsified clauses and {len(drift_all)} of {stats['ndrift']} drifts in full")
        # 1. model results
        models = {}
        tot_s = tot_t = 0
        cov, cov_cfgs = collections.Counter(), []
        for (c, _, with_cov), (_, f) in zip(cfg["models"], f_models):
            r = f.result()
            models[c] = {"states": r.distinct, "transitions": r.generated, "depth": r.depth, "wall_s": round(r.wall, 1)}
            tot_s += r.distinct
            tot_t += r.generated
            if with_cov:
                cov_cfgs.append(c)
                cov.update(_coverage(r))
        bugs = {b: {"defect": BUGS[b][0], "refuted_by": f.result().violated, "states": f.result().distinct} for b, f in f_bugs.items()}
    finally:
        ex.shutdown(wait=True, cancel_futures=True)
    actions = {a: cov.get(a, 0) for a in ACTIONS}
    # (ParseOther / Finish belong to the seeded defects / the generation)
    never = [a for a in ACTIONS if actions[a] == 0]
    if never and not nomodel:
        raise vlib.ToolError(f"model actions never taken in {cov_cfgs}: {never}")
    real_drift = [x for x in drift_all if all_recs[x["l"] - 1]["scn"]["src"] != "self-test"]
    drift_by = collections.Counter(f"{x['where']}:{x['a']}:{'+'.join(sorted(x['df']))}" for x in real_drift)
    if real_drift:
        vlib.log(f"DRIFT property={pid} (upgrade model vs real): {len(real_drift)} run(s) differ from Upgrade.tla, e.g. {dict(list(drift_by.items())[:4])}")
    if drift_keys:
        vlib.log(f"DRIFT property={pid} (upgrade clauses outside every property's text): {drift_keys}")
    if other:
        vlib.log(f"[{pid}] upgrade: clauses of the other properties falsified (reported by their own checks): {other}")
    panics = s_model["panics"] + s_rand["panics"]
    if panics:
        vlib.log(f"[{pid}] upgrade: {panics} panic(s) of the code under test were recorded")
    by_cfg = collections.Counter(r["key"].rsplit("/", 1)[0] for r in recs)
    tunnels = sum(1 for r in recs if not r.get("aborted") for q in r["end"]["rq"] if q["cw"]["ws"] != "none" and q["sw"]["ws"] != "none")
    tbytes = sum(q["sr"]["n"] + q["cr"]["n"] for r in recs if not r.get("aborted") for q in r["end"]["rq"])
    early = sum(1 for r in recs for q in r["scn"]["reqs"] if q["early"] > 0)
    after_up = sum(1 for r in recs if not r.get("aborted") and any(c["up"] for c in r["fin"]["conns"])
                   and any(any(st["a"] == "Issue" and st["r"] == i + 1 for st in r["scn"]["steps"]) for i, _ in enumerate(r["scn"]["reqs"])))
    samples = []
    for want in ("model", "random", "fixed"):
        for r in recs:
            if r["scn"]["src"] == want and not r.get("aborted") and any(q["sr"]["n"] for q in r["end"]["rq"]):
                samples.append({"src": want, "history": _summ(r, 1 + next(i for i, q in enumerate(r["end"]["rq"]) if q["sr"]["n"]))[:900]})
                break
    res = {
        "spec": "spec/Upgrade.tla", "properties_model_checked": MODEL_PROPS,
        "states": tot_s, "transitions": tot_t, "model_configs": models,
        "tlc_coverage": {"configs": cov_cfgs, "actions": actions, "actions_never_taken": never,
                         "note": "ParseOther only under seeded defects; Finish only in generation"},
        "refuted_variants": bugs,
        "generation": {"pool_scenarios": len(pool_scn), "raw_scenarios": len(raw_scn), "executed_with_expectation": sum(1 for s in scns if s.get("exp")),
                       "fixed": sum(1 for s in scns if s["src"] == "fixed")},
        "replay": {"runs": s_model["runs"], "steps": s_model["steps"], "configs": s_model["configs"]},
        "random": {"runs": s_rand["runs"], "steps": s_rand["steps"]},
        "real_runs": len(recs), "runs_by_client_and_server": dict(by_cfg), "tunnels_established": tunnels, "tunnel_bytes_read": tbytes,
        "requests_with_early_bytes": early, "runs_with_an_upgraded_connection": after_up,
        "monitor": {"spec": "spec/UpgradeObs.tla", "records_judged": len(recs), "steps": stats["nsteps"], "requests": stats["nreq"], "tunnels": stats["ntun"],
                    "runs_with_model_expectation": stats["nexp"], "falsified_clauses_of_this_property": counts,
                    "falsified_clauses_of_the_other_properties": other, "wall_s": round(mon.wall, 1)},
        "drift": {"model_vs_real_runs": len(real_drift), "by_config_step_field": dict(drift_by.most_common(12)), "clauses_outside_the_properties": drift_keys},
        "self_test": {"corruption": st_what, "expected_key": st_want, "monitor_flagged": st_viol},
        "samples": samples, "panics": panics, "assumptions": ASSUMPTIONS,
        "wall_s": round(time.time() - t0, 1), "harness_build_s": round(t_build, 1),
    }
    with open(os.path.join(d, "stage.json"), "w") as f:
        json.dump(res, f, indent=1)
    vlib.log(f"[{pid}] upgrade stage: model {tot_s} states / {tot_t} transitions; {s_model['runs']} generated + {s_rand['runs']} random scenarios on the real stack "
             f"({tunnels} tunnels, {tbytes} tunnel bytes); monitor {len(recs)} records, falsified {counts or 'nothing'}; drift model-vs-real {len(real_drift)}, "
             f"other clauses {drift_keys or 'none'}; {len(bugs)} variants refuted; {time.time() - t0:.0f}s")
    return res


def replay(pid, obj):
    """Re-executes a replay object of kind "upgrade-scenario" on the current tree; exit code as a check (0 / 1)."""
    rp = obj.get("replay", obj)
    if rp.get("kind") != "upgrade-scenario":
        raise vlib.ToolError("x_upgrade.replay: not an upgrade-scenario replay object")
    d = _d(pid)
    tr = os.path.join(d, "replay_trace.ndjson")
    inp = os.path.join(d, "replay_in.ndjson")
    vlib.write_ndjson(inp, [rp["scenario"]])
    args = ["run", "--in", inp, "--out", tr]
    if rp["scenario"].get("tls"):
        args += ["--certs", _certs(pid)]
    _harness(pid, args, timeout=600)
    recs = vlib.read_ndjson(tr)
    viol, _, _, _ = _monitor(pid, tr, len(recs), "replay")
    verdict = vlib.Verdict(pid)
    counts, other, drift = _report(pid, viol, recs, verdict)
    code, _ = verdict.finish()
    if code == 0:
        print(f"replay: the upgrade clauses of {pid} hold on this scenario on the current tree ({len(recs)} run; other keys: {dict(other, **drift)})", flush=True)
    return code


if __name__ == "__main__":
    # development entry point: python3 checks/x_upgrade.py C02|C18|C01|C13 quick|thorough [seed]   |   ... replay C02 <file>
    import sys
    sys.path.insert(0, os.path.join(vlib.ROOT, "lib"))
    if sys.argv[1] == "replay":
        sys.exit(replay(sys.argv[2], json.load(open(sys.argv[3]))))
    pid, tier = sys.argv[1], sys.argv[2]
    seed = int(sys.argv[3]) if len(sys.argv) > 3 else vlib.seed_from_env()
    vd = vlib.Verdict(pid)
    out = stage(pid, tier, seed, vd)
    code, _ = vd.finish()
    print(json.dumps({k: out[k] for k in ("states", "transitions", "generation", "real_runs", "tunnels_established", "wall_s")}))
    print(json.dumps(out["monitor"]))
    print(json.dumps(out["drift"])[:2500])
    sys.exit(code)
