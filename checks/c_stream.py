"""C18 - stream adapters deliver exactly the bytes written, in order (spec/Stream.tla).

Pipeline of one run:
  1. TLC model-checks the property clauses on the adapter model (all op sequences up to the tier's length),
     and on five seeded-defect variants of the model, each of which MUST violate a clause (vacuity guard).
  2. TLC generates op sequences (exhaustive single ops on every real stack, exhaustive read pairs on the
     Rewind stacks, pseudo-random sequences computed in TLA+); the harness adds seeded random sequences of
     length up to 40 with wider parameters.
  3. harness bin `stream` executes them on the REAL adapters (one poll per op, counting waker) and records
     one observation per op.
  4. TLC (spec/StreamObs.tla) recomputes the reference FIFO from the recorded ops and evaluates the clauses
     on every recorded step: its INVARIANTs decide VIOLATION.  Differences between the real observation
     and the lock-step model that do not falsify a clause are DRIFT (reported, exit 0).
"""
import collections
import concurrent.futures
import json
import os
import re
import time

import vlib

BUGS = {
    "dropprefix": "Rewind forgets the rest of the prefix when the read buffer is smaller than the prefix",
    "fillcap": "TokioIo (tokio->hyper) advances `filled` by the buffer capacity instead of n",
    "vecfirst": "poll_write_vectored writes only the first slice but reports the total",
    "eofpending": "TokioIo (hyper->tokio) turns EOF of the inner stream into Pending",
    "noshutdown": "shutdown is not forwarded to the inner stream",
}
ASSUMPTIONS = [
    "Undefined behaviour inside the unsafe buffer code (TokioIo's ReadBuf/ReadBufCursor bookkeeping, Rewind::put_slice) "
    "that does not change the delivered bytes, the filled/initialised counters or the return value is invisible to this "
    "technique (Miri would see it; not used by the rules of this study).",
    "The harness buffers are really initialised memory (poison 0xFF); only the ReadBuf's own `initialized` counter says "
    "otherwise, so a read of 'uninitialised' bytes shows up as poison in the observation, not as UB.",
    "One poll per op with a counting waker; the scripted inner stream follows one injection per op (full / short 1 / "
    "short 2 / Pending / EOF (sticky) / error) and fires the waker it stored right after a Pending result.",
    "Adapters are assumed not to buffer writes: the clause S_W_Exact demands that the inner stream has accepted exactly "
    "the first n offered bytes when poll_write returns n (true of every adapter in scope).",
    "TCP / Unix socket stacks: only data-dependent clauses (prefix of the FIFO, EOF only after shutdown with everything "
    "delivered, final drain reaches EOF within 3 s of real time); no timing assertions; Pending is always allowed there.",
    "TLS record layers (client/server TlsStream over rustls) are outside C18's scripted stacks: only the TlsBraid "
    "dispatch (both arms, with a scripted stream in the Tls arm) is driven; the TLS data path is covered by C12/C01.",
    "Byte numbers are < 240 per direction and sequence (numbers are their own u8 value).",
]


def _tier(tier):
    if tier == "quick":
        return dict(mc="Stream_quick.cfg", mc_cov="Stream_cov.cfg", mc_timeout=600, genk=100, rand_cfg="Stream_gen_rand.cfg",
                    reads_cfg="Stream_gen_reads.cfg", rust_rand=12, maxlen=40)
    return dict(mc="Stream_thorough.cfg", mc_cov="Stream_quick.cfg", mc_timeout=2400, genk=700, rand_cfg="Stream_gen_rand7.cfg",
                reads_cfg="Stream_gen_reads_full.cfg", rust_rand=200, maxlen=40)


# ------------------------------------------------------------------------------------------------
def _model_part(pid, cfg):
    """Model verdict: the clauses hold on every behaviour of the bounded adapter model."""
    r = vlib.tlc("MC_Stream", cfg["mc"], pid, workers=8, timeout=cfg["mc_timeout"], coverage=False)
    if r.violated or not r.finished:
        vlib.log(r.out[-3000:])
        raise vlib.ToolError(f"the adapter model violates its own property ({r.violated}): the model is wrong, no verdict")
    return r


def _cov_part(pid, cfg):
    """The same model with -coverage 1 (per-action counts; slower, hence a shorter bound)."""
    rc = vlib.tlc("MC_Stream", cfg["mc_cov"], pid, workers=6, timeout=cfg["mc_timeout"], coverage=True)
    if rc.violated or not rc.finished:
        raise vlib.ToolError("coverage run of the adapter model failed")
    return rc


def _bug_part(pid):
    out = {}

    def one(b):
        r = vlib.tlc("MC_Stream", f"Stream_bug_{b}.cfg", pid, workers=2, timeout=300, xmx="2g")
        return b, r

    with concurrent.futures.ThreadPoolExecutor(max_workers=5) as ex:
        for b, r in ex.map(one, BUGS):
            if not r.violated:
                raise vlib.ToolError(f"vacuity guard: the model with seeded defect '{b}' does not violate the property")
            out[b] = r.violated
    return out


def _generate(pid, cfg, seed):
    """TLC-generated op sequences -> list of dicts {stack, ops, src}."""
    seqs = []
    counts = {}
    jobs = [("one", "Stream_gen_one.cfg", {}), ("reads", cfg["reads_cfg"], {}),
            ("rand", cfg["rand_cfg"], {"GENK": str(cfg["genk"]), "GENSEED": str(seed)})]

    def gen(job):
        tag, c, env = job
        e = {"GENK": "1", "GENSEED": "1"}
        e.update(env)
        r = vlib.tlc("MC_Stream", c, pid, workers=4, timeout=900, env=e, xmx="4g")
        if r.violated or not r.finished:
            raise vlib.ToolError(f"generation config {c} failed")
        return tag, r.printed("SEQ")

    with concurrent.futures.ThreadPoolExecutor(max_workers=3) as ex:
        for tag, lines in ex.map(gen, jobs):
            # TLC's workers print in a nondeterministic order: sort for reproducibility
            lines = sorted(lines, key=lambda o: json.dumps(o, sort_keys=True))
            counts[tag] = len(lines)
            for o in lines:
                o["src"] = "tlc-" + tag
                seqs.append(o)
    if not seqs:
        raise vlib.ToolError("TLC generated no op sequences")
    return seqs, counts


def _execute(pid, seqs, rust_rand, maxlen, seed, name):
    d = vlib.outdir(pid)
    inp = os.path.join(d, f"{name}-in.ndjson")
    outp = os.path.join(d, f"{name}-obs.ndjson")
    vlib.write_ndjson(inp, seqs)
    args = ["run", inp if seqs else "-", outp, "--seed", seed, "--tmp", d]
    if rust_rand:
        args += ["--rand", rust_rand, "--maxlen", maxlen]
    so = vlib.run_harness("stream", args, timeout=1800)
    summ = json.loads(so.strip().splitlines()[-1])
    return outp, summ


CLAUSE_ORDER = ["NoPanic", "NoStall", "R_Prefill", "R_Bounds", "R_NoEffect", "R_Next", "R_EofReal", "W_Ret", "S_W_Exact",
                "S_W_NoEffect", "S_R_EofProp", "S_R_ErrProp", "S_R_PendProp", "S_R_ErrReal", "S_R_PendReal", "S_W_Prop",
                "S_W_ErrReal", "S_W_PendReal", "S_W_ZeroReal", "S_NoCross", "S_Ctl", "P_NoErrRead", "P_WErrReal", "P_Ctl",
                "P_PendReal", "P_Wake", "AtEnd"]


def _key(rec, l, clauses):
    """Stable class of a violating step: adapter stack, kind of op, first failing clause (fixed order)."""
    st = rec["stack"]
    primary = min(clauses, key=lambda c: CLAUSE_ORDER.index(c) if c in CLAUSE_ORDER else 99)
    if 1 <= l <= len(rec["ops"]) and primary != "AtEnd":
        what = rec["ops"][l - 1]["op"]
    else:
        what = "end"
    return f"{st['name']}:{what}:{primary}"


def _inputs(rec):
    return [{k: o[k] for k in ("op", "dir", "cap", "pre", "ub", "lens", "inj")} for o in rec["ops"][:rec["nin"]]]


CHUNK_OPS = 160000


def _monitor(pid, trace, nseq, nops, verdict, label):
    """Strict monitor over the whole trace (in chunks of <= CHUNK_OPS recorded ops, one TLC run each).
    Returns (n_violating_steps, drift list)."""
    d = vlib.outdir(pid)
    chunks = []
    cur, cur_ops = [], 0
    with open(trace) as f:
        for line in f:
            if not line.strip():
                continue
            n = line.count('"aw":')          # one per recorded op
            if cur and cur_ops + n > CHUNK_OPS:
                chunks.append((cur, cur_ops))
                cur, cur_ops = [], 0
            cur.append(line)
            cur_ops += n
    if cur:
        chunks.append((cur, cur_ops))
    if sum(len(c) for c, _ in chunks) != nseq or sum(n for _, n in chunks) != nops:
        raise vlib.ToolError("trace chunking lost records")
    nbad, drift = 0, []
    for ci, (lines, n) in enumerate(chunks):
        if len(chunks) == 1:
            path = trace
        else:
            path = os.path.join(d, f"{label}-chunk{ci}.ndjson")
            with open(path, "w") as f:
                f.writelines(lines)
        b, dr = _monitor_chunk(pid, path, len(lines), n, verdict, f"{label}{ci}")
        nbad += b
        drift += dr
        if len(chunks) > 1:
            os.remove(path)
    return nbad, drift


def _monitor_chunk(pid, trace, nseq, nops, verdict, label):
    """Strict monitor run; on violation: screen, group by key, confirm each key with the INVARIANTs."""
    r = vlib.tlc("StreamObs", "StreamObs.cfg", pid, workers=8, timeout=2400, env={"TRACE": os.path.abspath(trace)}, xmx="10g")
    drift = r.printed("DRIFT")
    if r.violated is None:
        if not r.finished:
            vlib.log(r.out[-3000:])
            raise vlib.ToolError("monitor run did not finish")
        if r.distinct != nseq + nops:
            raise vlib.ToolError(f"monitor consumed {r.distinct} states, expected {nseq + nops}: trace not fully evaluated")
        return 0, drift
    if r.violated == "I_Sane":
        vlib.log(r.out[-3000:])
        raise vlib.ToolError("harness sanity invariant I_Sane failed: the recorded trace is malformed")
    vlib.log(f"[monitor] {label}: TLC reports {r.violated} violated; screening the whole trace")
    s = vlib.tlc("StreamObs", "StreamObs_screen.cfg", pid, workers=8, timeout=2400, env={"TRACE": os.path.abspath(trace)}, xmx="10g")
    bads = s.printed("BAD")
    badset = {(b["k"], b["l"]) for b in bads}
    drift = [x for x in s.printed("DRIFT") if (x["k"], x["l"]) not in badset]
    if not bads:
        raise vlib.ToolError("monitor violated but the screening pass lists nothing")
    recs = vlib.read_ndjson(trace)
    groups = collections.OrderedDict()
    for b in sorted(bads, key=lambda b: (b["k"], b["l"])):
        rec = recs[b["k"] - 1]
        key = _key(rec, b["l"], sorted(b["bad"]))
        groups.setdefault(key, []).append((rec, b))
    vlib.log(f"[monitor] {len(bads)} violating steps in {len(groups)} classes")
    d = vlib.outdir(pid)
    # confirmation: one (shortest) failing sequence per class, judged by the INVARIANTs themselves (-continue
    # makes TLC report every violating state of the small file instead of stopping at the first)
    items = list(groups.items())[:40]
    chosen = [min(lst, key=lambda x: (len(x[0]["ops"]), x[0]["id"])) for _, lst in items]
    p = os.path.join(d, f"confirm-{label}.ndjson")
    vlib.write_ndjson(p, [rec for rec, _ in chosen])
    c = vlib.tlc("StreamObs", "StreamObs.cfg", pid, workers=1, timeout=900, env={"TRACE": p}, xmx="4g", extra=["-continue"])
    confirmed = {}
    for chunk in c.out.split("Error: Invariant ")[1:]:
        m = re.match(r"(\S+) is violated", chunk)
        ks = re.findall(r"/\\ k = (\d+)", chunk)
        if m and ks and m.group(1) != "I_Sane":
            confirmed.setdefault(int(ks[-1]), []).append(m.group(1))
    for i, ((key, lst), (rec, b)) in enumerate(zip(items, chosen)):
        inv = confirmed.get(i + 1)
        if not inv:
            raise vlib.ToolError(f"screened class {key} not confirmed by the invariants")
        o = rec["ops"][b["l"] - 1] if 1 <= b["l"] <= len(rec["ops"]) else None
        desc = (f"clauses {sorted(b['bad'])} false at op {b['l']} of sequence {rec['id']} [{rec['src']}] on {rec['stack']['name']} "
                f"(p={rec['stack']['p']}, ivec={rec['stack']['ivec']}, B={rec['stack']['B']}); invariants TLC reports violated on this "
                f"sequence: {sorted(set(inv))}; "
                f"{len(lst)} violating step(s) in this class; observation: "
                + (json.dumps({k: o[k] for k in ('op', 'cap', 'pre', 'lens', 'inj', 'res', 'kind', 'n', 'filled', 'buf', 'igave', 'igot', 'icalls', 'woken')})
                   if o else "end of sequence (EOF not reached or delivered # written)"))
        verdict.violation(key, desc, {"stack": rec["stack"], "ops": _inputs(rec), "src": rec["src"], "failing_op": b["l"],
                                      "clauses": sorted(b["bad"]), "invariants": sorted(set(inv)), "observed": rec["ops"]})
    return len(bads), drift


def _stats(trace):
    nseq = nops = 0
    distinct = set()
    per_stack = collections.Counter()
    per_src = collections.Counter()
    res_counts = collections.Counter()
    samples = []
    maxlen = 0
    for rec in vlib.read_ndjson(trace):
        nseq += 1
        st = rec["stack"]
        sk = (st["name"], st["p"], st["ivec"], st["B"])
        per_stack[st["name"]] += 1
        per_src[rec["src"]] += 1
        maxlen = max(maxlen, rec["nin"])
        for o in rec["ops"]:
            nops += 1
            res_counts[o["op"] + ":" + o["res"]] += 1
            nontrivial = o["res"] != "Ok" or o["n"] > 0 or (o["op"] == "read" and o["cap"] > 0) or o["op"] in ("flush", "shutdown")
            if nontrivial:
                distinct.add((sk, o["op"], o["dir"], o["cap"], o["pre"], o["ub"], tuple(o["lens"]), o["inj"], o["res"], o["kind"], o["n"],
                              tuple(o["buf"]), tuple(o["igot"])))
        if len(samples) < 4 and rec["nin"] >= 3 and rec["src"] != (samples[-1]["src"] if samples else None):
            samples.append({"src": rec["src"], "stack": st, "ops": [
                {k: o[k] for k in ("op", "dir", "cap", "pre", "lens", "inj", "res", "n", "buf", "igot", "icalls")} for o in rec["ops"]]})
    return dict(nseq=nseq, nops=nops, distinct=len(distinct), per_stack=dict(per_stack), per_src=dict(per_src),
                res_counts=dict(res_counts), samples=samples, maxlen=maxlen)


def run(pid, tier, seed, t0):
    cfg = _tier(tier)
    verdict = vlib.Verdict(pid)
    vlib.build_harness("stream")
    with concurrent.futures.ThreadPoolExecutor(max_workers=3) as ex:
        f_model = ex.submit(_model_part, pid, cfg)
        f_cov = ex.submit(_cov_part, pid, cfg)
        f_bugs = ex.submit(_bug_part, pid)
        seqs, gen_counts = _generate(pid, cfg, seed)
        trace, summ = _execute(pid, seqs, cfg["rust_rand"], cfg["maxlen"], seed, "run")
        st = _stats(trace)
        nbad, drift = _monitor(pid, trace, st["nseq"], st["nops"], verdict, "run")
        mc = f_model.result()
        cov = f_cov.result()
        bugs = f_bugs.result()
    actions = {a: {"distinct": v[0], "taken": v[1]} for a, v in cov.coverage().items()
               if a in ("Init", "Read", "Write", "WriteV", "Flush", "Shutdown")}
    never = [a for a in ("Read", "Write", "WriteV", "Flush", "Shutdown") if actions.get(a, {}).get("taken", 0) == 0]
    if never:
        raise vlib.ToolError(f"model actions never taken: {never}")
    if drift:
        vlib.log(f"DRIFT property={pid}: {len(drift)} sequence step(s) where the real adapter differs from the model without "
                 f"falsifying a clause, e.g. {drift[:3]}")
    # the sniffer in front of the rewind buffer (ReadVersion + Rewind as the server assembles them): bytes clause of Sniff.tla
    import c_sniff
    sniff = c_sniff.bytes_stage(pid, tier, seed, verdict)
    # extension stages (own specs, same verdict): Duplex.tla (connect/accept pairing and the byte pipes) and TlsStream.tla
    import x_duplex, x_tlsstream
    duplex_stage = x_duplex.stage(pid, tier, seed, verdict)
    tls_stage = x_tlsstream.stage(pid, tier, seed, verdict)
    upgrade_stage = __import__("x_upgrade").stage(pid, tier, seed, verdict)   # Upgrade.tla: U2, tunnel bytes after a 101 incl. early bytes
    code, n_unlisted = verdict.finish()
    coverage = {
        "sniffing_rewind_assembly": sniff, "duplex_transport": duplex_stage, "tls_stream_model": tls_stage, "upgrade_model": upgrade_stage,
        "states": mc.distinct, "transitions": mc.generated, "model_depth": mc.depth,
        "model_config": cfg["mc"], "model_wall_s": round(mc.wall, 1),
        "traces_validated_against_impl": st["nseq"],
        "evaluations": st["nops"], "distinct_nontrivial": st["distinct"],
        "rule": "one evaluation = one recorded op (one poll of a real adapter) judged by the TLC monitor on all clauses; "
                "sequences: every single op on every real stack and every read pair on the Rewind stacks (exhaustive, TLC), "
                "pseudo-random sequences computed in TLA+ (GENK per stack), seeded random sequences of length 8..40 from the "
                "harness, each followed by a drain to EOF; distinct_nontrivial counts distinct (stack, op, arguments, injection, "
                "result, returned count, buffer contents, bytes the inner accepted) tuples of ops that are not no-ops "
                "(moved bytes, had capacity, returned Pending/Err, or flush/shutdown)",
        "exhaustive": False,
        "exhaustive_parts": {"model": f"all op sequences of length <= {mc.depth - 1 if mc.depth else '?'} over 17 model stacks",
                             "single_ops_all_real_stacks": gen_counts.get("one", 0),
                             "read_sequences_on_rewind_stacks": gen_counts.get("reads", 0)},
        "sequences_by_source": st["per_src"], "sequences_by_stack": st["per_stack"], "longest_sequence": st["maxlen"],
        "op_results": st["res_counts"],
        "tlc_coverage": {"config": cfg["mc_cov"], "states": cov.distinct, "transitions": cov.generated, "actions": actions,
                         "actions_never_taken": never},
        "vacuity_guard": {b: {"defect": BUGS[b], "clause_violated_on_model": v} for b, v in bugs.items()},
        "violating_steps": nbad,
        "drift": [json.dumps(x) for x in drift[:20]], "drift_count": len(drift),
        "samples": st["samples"], "repo_tree": vlib.repo_tree_id(),
    }
    vlib.write_evidence(pid, tier, seed, "model_checking", coverage, ASSUMPTIONS, time.time() - t0, len(verdict.violations))
    vlib.log(f"[{pid}] model {mc.distinct} states / {mc.generated} transitions; {st['nseq']} sequences, {st['nops']} ops on the real "
             f"adapters; {nbad} violating steps; drift {len(drift)}; {time.time() - t0:.0f}s")
    return code


def replay(pid, path):
    obj = json.load(open(path))
    _k = obj.get("replay", obj).get("kind") if isinstance(obj.get("replay", obj), dict) else None
    if _k == "tlsstream-ops":
        import x_tlsstream
        return x_tlsstream.replay(pid, obj)
    if _k == "upgrade-scenario":
        return __import__("x_upgrade").replay(pid, obj)
    if _k == "duplex-trace":
        import x_duplex
        return x_duplex.replay(pid, obj)
    rp = obj.get("replay", obj)
    if rp.get("kind") == "sniff-vectors":
        import c_sniff
        return c_sniff.replay(pid, path)
    verdict = vlib.Verdict(pid)
    seq = {"stack": rp["stack"], "ops": rp["ops"], "src": "replay"}
    trace, summ = _execute(pid, [seq], 0, 0, vlib.seed_from_env(), "replay")
    st = _stats(trace)
    nbad, drift = _monitor(pid, trace, st["nseq"], st["nops"], verdict, "replay")
    code, _ = verdict.finish()
    if code == 0 and not verdict.violations:
        print(f"replay of {path}: property holds on the current tree ({st['nops']} ops)", flush=True)
    return code
