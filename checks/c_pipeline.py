"""C17 -- no well-typed request value makes the client panic.

Pipeline (DESIGN.md 3.5 / 4 C17):
  1. TLC checks Pipeline.tla (the intended transcription of the validation pipeline: UriKey::try_from,
     HttpProtocol::from(version), TlsTransport::call / TlsStream::new, protocol choice, set_host_header,
     check_http2_request, check_http1_request, send) for "panic is never an outcome", with coverage.
  2. TLC (Pipeline_asbuilt.cfg) lists the vectors on which the as-built transcription panics (informative).
  3. TLC (Pipeline_gen.cfg) prints every abstract vector with the outcome classes both transcriptions allow, and
     the payload classes (header set x body) crossed onto the vectors.
  4. harness bin `pipeline`, built twice from /repo's working tree -- release, and release with debug assertions
     and overflow checks (profile `da`: what a library user building in debug gets; DESIGN D6) -- sends every
     vector as a concrete request through Client, ConnectionPoolService with and without pool, ConnectorService
     (with the builder's inner layers and bare), over plain and TLS in-memory transports to a real hyper
     server; each request inside catch_unwind on its own paused current-thread runtime with a global panic hook,
     settled and torn down before the hook log is read (panics in spawned tasks are seen).
  5. TLC (PipelineObs.tla) evaluates the property on every real record. Only a clause TLC evaluates to FALSE is
     a VIOLATION; a real outcome class the model does not allow for the vector is DRIFT.
"""
import collections
import concurrent.futures
import json
import os
import subprocess
import time

import vlib
from c_tlsroute import make_certs

SPELLINGS = {"quick": 2, "thorough": 3}
VEC_FIELDS = ("ver", "method", "uri", "host", "stack", "transport", "da")
DA_CFG = ["--config", 'profile.da.inherits="release"', "--config", "profile.da.debug-assertions=true",
          "--config", "profile.da.overflow-checks=true"]


def target_dir():
    return os.environ.get("VERIF_TARGET_DIR") or os.path.join(vlib.HARNESS, "target")


def build_da():
    """The same binary with debug assertions and overflow checks on for every crate (cargo profile `da`, defined
    on the command line so that Cargo.toml stays untouched); artefacts under <target>/da."""
    t = time.time()
    env = dict(os.environ, CARGO_NET_OFFLINE="true", CARGO_TARGET_DIR=target_dir())
    p = subprocess.run(["cargo", "build", "--offline", "--bin", "pipeline", "--profile", "da"] + DA_CFG,
                       cwd=vlib.HARNESS, env=env, stdout=subprocess.PIPE, stderr=subprocess.STDOUT, text=True)
    if p.returncode != 0:
        vlib.log(p.stdout[-6000:])
        raise vlib.ToolError("harness build with debug assertions failed")
    vlib.log("[build] harness bin pipeline (debug assertions) built in %.1fs" % (time.time() - t))
    return os.path.join(target_dir(), "da", "pipeline")


def run_bin(path, args, timeout):
    t = time.time()
    try:
        p = subprocess.run([path] + [str(a) for a in args], stdout=subprocess.PIPE, stderr=subprocess.PIPE, text=True,
                           timeout=timeout)
    except subprocess.TimeoutExpired:
        raise vlib.ToolError("harness %s timed out" % path)
    if p.returncode != 0:
        vlib.log(p.stderr[-4000:])
        raise vlib.ToolError("harness %s exited %d" % (path, p.returncode))
    vlib.log("[harness] %s %s: %.1fs" % (path, " ".join(map(str, args))[:120], time.time() - t))
    return json.loads(p.stdout.strip().splitlines()[-1])


def vkey(v):
    return "/".join(str(v[f]).lower() if f == "da" else v[f] for f in VEC_FIELDS)


def _vectors(pid, tier, seed):
    g = vlib.tlc("MC_Pipeline", "Pipeline_gen.cfg", pid, workers=1, timeout=900)
    lines = g.printed("VEC")
    pay = g.printed("PAYLOADS")
    if not g.finished or not lines or not pay:
        raise vlib.ToolError("Pipeline_gen produced no vectors")
    payloads = sorted(pay[0], key=lambda p: (p["hdr"], p["body"]))
    by = {}
    for x in lines:
        e = by.setdefault(vkey(x["v"]), {"v": x["v"], "exp": set(), "expAsBuilt": set(), "stage": set(), "stageAsBuilt": set()})
        e["expAsBuilt" if x["asBuilt"] else "exp"].update(x["exp"]["classes"])
        e["stageAsBuilt" if x["asBuilt"] else "stage"].add(x["exp"]["stage"])
    vecs = []
    n = 0
    for k in sorted(by):
        e = by[k]
        if not e["exp"] or not e["expAsBuilt"]:
            raise vlib.ToolError("Pipeline_gen: vector %s lacks an outcome" % k)
        n += 1
        # quick: one payload per vector, rotating with the seed (every payload class meets every stage many times);
        # thorough: the full cross product
        ps = payloads if tier == "thorough" else [payloads[(n + seed) % len(payloads)]]
        for p in ps:
            v = dict(e["v"])
            v.update(hdr=p["hdr"], body=p["body"], id=len(vecs) + 1,
                     exp={"classes": sorted(e["exp"]), "stage": "+".join(sorted(e["stage"]))},
                     expAsBuilt={"classes": sorted(e["expAsBuilt"]), "stage": "+".join(sorted(e["stageAsBuilt"]))})
            vecs.append(v)
    return vecs, len(by), payloads


def _obs(pid, records_path, cfg="PipelineObs.cfg", timeout=1700):
    r = vlib.tlc("PipelineObs", cfg, pid, workers=1, timeout=timeout, xmx="12g",
                 env={"TRACE": os.path.abspath(records_path)})
    if "Invariant WellFormed is violated" in r.out:
        vlib.log(r.out[-3000:])
        raise vlib.ToolError("PipelineObs: a record is outside the domain of the spec (harness/spec mismatch)")
    return r


def _violation_key(rec):
    """Stable key of the failing input class: where it panics, in which kind of task, and the request attribute that
    reaches that panic site (version for the protocol conversion, host form for the server name, ...)."""
    v, o = rec["v"], rec["obs"]
    f = o.get("panicFile", "?")
    where = "caller" if o["result"] == "panic" else "task"
    if f.endswith("client/conn/protocol/mod.rs"):
        attr = "version=HTTP/%s" % v["ver"]
    elif f.endswith("client/conn/stream/tls.rs"):
        attr = "tls-host=%s" % {"v6": "[v6]"}.get(v["host"], v["host"])
    elif f.endswith("service/http.rs"):
        attr = "method=%s;uri=%s" % ("CONNECT" if v["method"] == "CONNECT" else "non-CONNECT", v["uri"])
    else:
        # a panic site this check has no specific projection for: the site itself (file, task kind, message) is the
        # class, refined by the coarse shape of the request
        attr = "method=%s;uri=%s" % ("CONNECT" if v["method"] == "CONNECT" else "non-CONNECT",
                                     v["uri"] if v["uri"] in ("origin", "authority", "asterisk") else "absolute")
    msg = (o.get("panicMsg") or "")[:40].replace(" ", "_")
    return "%s:%s@%s(%s):%s" % ("debug-assertions" if v["da"] else "release", attr, f, where, msg)


def _describe(rec):
    v, o, sp = rec["v"], rec["obs"], rec["sp"]
    return ("%s build: %s %s %s (headers: %s; body %d bytes) through stack=%s transport=%s: panic '%s' at %s in %s "
            "(result to the caller: %s, %d panic(s) recorded)" % (
                "debug-assertions" if v["da"] else "release", sp["method"], sp["uri"][:100], sp["version"], v["hdr"], sp["bodyLen"],
                v["stack"], v["transport"], o.get("panicMsg"), o.get("panicLoc"),
                "the caller's task" if o["result"] == "panic" else "a spawned task", o["result"], o.get("panics", 0)))


def run(pid, tier, seed, t0):
    d = vlib.outdir(pid)
    # builds in parallel: release (vlib) and release + debug assertions
    with concurrent.futures.ThreadPoolExecutor(max_workers=3) as ex:
        f_rel = ex.submit(vlib.build_harness, "pipeline")
        f_da = ex.submit(build_da)
        # 1. the model (meanwhile)
        m = vlib.tlc("MC_Pipeline", "Pipeline_%s.cfg" % tier, pid, workers=4, timeout=900, coverage=True)
        if not m.finished or m.violated:
            vlib.log(m.out[-3000:])
            raise vlib.ToolError("Pipeline.tla: the intended transcription has a panic outcome (spec error)")
        cov = m.coverage()
        never = sorted(a for a, (dist, taken) in cov.items() if taken == 0)
        # 2. as-built prediction
        ab = vlib.tlc("MC_Pipeline", "Pipeline_asbuilt.cfg", pid, workers=1, timeout=900)
        pred = collections.Counter(b["stage"] for b in ab.printed("ABBAD"))
        pred_keys = {vkey(b["v"]) for b in ab.printed("ABBAD")}
        demo = None
        if tier == "thorough":
            # standing demonstration (DESIGN 2.4): TLC must refute "no panic" on the as-built transcription
            st = vlib.tlc("MC_Pipeline", "Pipeline_asbuilt_strict.cfg", pid, workers=1, timeout=600)
            demo = st.violated
            if st.violated != "AsBuiltHolds":
                raise vlib.ToolError("Pipeline_asbuilt_strict: TLC did not refute the as-built transcription")
        # 3. vectors
        vecs, nabs, payloads = _vectors(pid, tier, seed)
        vpath = os.path.join(d, "vectors.json")
        json.dump(vecs, open(vpath, "w"))
        certs = make_certs(pid)
        f_rel.result()
        da_bin = f_da.result()
        # 4. the real code, both builds
        k = SPELLINGS[tier]
        r1, r2 = os.path.join(d, "records-release.ndjson"), os.path.join(d, "records-da.ndjson")
        j1 = ex.submit(run_bin, vlib.hbin("pipeline"), ["run", vpath, certs, r1, seed, k], 1500)
        j2 = ex.submit(run_bin, da_bin, ["run", vpath, certs, r2, seed, k], 1500)
        s1, s2 = j1.result(), j2.result()
    if s1["debug_assertions"] or not s2["debug_assertions"]:
        raise vlib.ToolError("the two builds do not differ in debug assertions: %s %s" % (s1, s2))
    rpath = os.path.join(d, "records.ndjson")
    with open(rpath, "w") as f:
        for p in (r1, r2):
            f.write(open(p).read())
    recs = vlib.read_ndjson(rpath)
    nrec = len(recs)
    if nrec != s1["records"] + s2["records"] or nrec + s1["skipped"] + s2["skipped"] != len(vecs) * k:
        raise vlib.ToolError("harness executed %d records (+%d skipped) for %d vectors x %d" % (
            nrec, s1["skipped"] + s2["skipped"], len(vecs), k))
    # 5. the monitor
    o = _obs(pid, rpath)
    cons = [l for l in o.out.splitlines() if l.startswith('<<"CONSUMED"')]
    if not o.finished or not cons or o.distinct != nrec:
        vlib.log(o.out[-3000:])
        raise vlib.ToolError("PipelineObs did not consume the %d records (distinct=%d)" % (nrec, o.distinct))
    bad = [b["i"] for b in o.printed("BAD")]
    hang = [b["i"] for b in o.printed("HANG")]
    diffi = {x["i"] for x in o.printed("DIFFI")}
    diffa = {x["i"] for x in o.printed("DIFFA")}

    verdict = vlib.Verdict(pid)
    groups = collections.OrderedDict()
    for i in bad:
        groups.setdefault(_violation_key(recs[i - 1]), []).append(i)
    for key, members in groups.items():
        rec = recs[members[0] - 1]
        vec = dict(rec["v"], id=rec["id"], spx=rec["spx"], exp=rec["exp"], expAsBuilt=rec["expAsBuilt"])
        verdict.violation(key, _describe(rec) + " [%d records in this class]" % len(members),
                          {"seed": seed, "vector": vec, "record": rec, "records_in_class": len(members)})
    code, unlisted = verdict.finish()

    badset = set(bad)
    drift_only = sorted(i for i in diffi if i not in badset)
    for i in drift_only[:8]:
        r = recs[i - 1]
        vlib.log("DRIFT C17 record %d %s: %s %s %s: model allows %s (stage %s), real %s %s" % (
            i, vkey(r["v"]), r["sp"]["method"], r["sp"]["uri"][:60], r["sp"]["version"], r["exp"]["classes"], r["exp"]["stage"],
            r["obs"]["class"], (r["obs"].get("errMsg") or r["obs"].get("status"))))
    for i in hang[:5]:
        r = recs[i - 1]
        vlib.log("UNRESOLVED C17 record %d %s: %s %s %s hdr=%s" % (i, vkey(r["v"]), r["sp"]["method"], r["sp"]["uri"][:60],
                                                               r["sp"]["version"], r["v"]["hdr"]))
    bad_vecs = {vkey(recs[i - 1]["v"]) for i in bad}
    classes = collections.Counter("%s/%s" % (r["build"], r["obs"]["class"]) for r in recs)
    nontrivial = len({(vkey(r["v"]), r["v"]["hdr"], r["v"]["body"], r["sp"]["method"], r["sp"]["uri"], tuple(r["sp"]["headers"]),
                       r["sp"]["bodyLen"]) for r in recs if r["obs"]["conns"] > 0 or r["obs"]["panicked"]})
    sample_ids = [1, nrec // 4, nrec // 2, (3 * nrec) // 4, nrec]
    samples = [{"build": recs[i - 1]["build"], "v": recs[i - 1]["v"],
                "request": "%s %s %s" % (recs[i - 1]["sp"]["method"], recs[i - 1]["sp"]["uri"][:80], recs[i - 1]["sp"]["version"]),
                "obs": {f: recs[i - 1]["obs"].get(f) for f in ("result", "status", "errKind", "panicLoc", "taskPanics", "conns")}}
               for i in sample_ids if 1 <= i <= nrec]
    coverage = {
        "states": m.distinct, "transitions": m.generated, "depth": m.depth,
        "traces_validated_against_impl": nrec,
        "samples": samples,
        "evaluations": nrec,
        "distinct_nontrivial": nontrivial,
        "rule": "every vector of version(5) x method(5) x URI form(8) x host form(5, where the form has a host) x stack(5) x "
                "transport(3) x build(2) from TLC, crossed with header-set(4) x body(2) payload classes (%s), %d seeded "
                "spelling(s) each, sent through the real stacks; non-trivial = distinct concrete request that reached the "
                "transport (a connection was dialled) or panicked" % (
                    "all 8 per vector" if tier == "thorough" else "one per vector, rotating with the seed", k),
        "exhaustive": len(drift_only) == 0 and not bad and tier == "thorough",
        "abstract_vectors": nabs, "vectors_with_payload": len(vecs), "spellings": k,
        "builds": {"release": s1, "debug_assertions": s2},
        "tlc_coverage": {a: {"distinct": c[0], "taken": c[1]} for a, c in sorted(cov.items())},
        "actions_never_taken": never,
        "monitor": {"records": nrec, "states": o.distinct, "panicking_records": len(bad), "violation_classes": len(groups),
                    "unresolved_requests": len(hang)},
        "as_built_prediction": {"vectors": len(pred_keys), "by_stage": dict(pred), "tlc_refutes_as_built_model": demo,
                                "predicted_and_observed": len(pred_keys & bad_vecs),
                                "predicted_not_observed": len(pred_keys - bad_vecs),
                                "observed_not_predicted": len(bad_vecs - pred_keys)},
        "drift": {"records_outside_intended_model": len(diffi), "of_which_not_violations": len(drift_only),
                  "records_outside_as_built_model": len(diffa),
                  "examples": [{"vector": vkey(recs[i - 1]["v"]), "request": "%s %s" % (recs[i - 1]["sp"]["method"], recs[i - 1]["sp"]["uri"][:60]),
                                "model": recs[i - 1]["exp"], "real": recs[i - 1]["obs"]["class"]} for i in drift_only[:5]]},
        "outcome_classes": dict(classes),
        "repo_tree": vlib.repo_tree_id(),
    }
    assumptions = [
        "only the enumerated request grammar (classes and their seeded spellings); header names/values and bodies are "
        "whatever the http crate accepts as well-typed",
        "panics are observed through the global panic hook and catch_unwind on a single-threaded runtime that is settled "
        "and dropped per request; a panic that would only occur on a multi-threaded runtime is not seen",
        "the in-memory transport and the hyper peer stand for the network; rustls and hyper are trusted not to hide panics "
        "(a panic inside them is recorded like any other)",
        "debug-assertions configuration = cargo profile inheriting release with debug-assertions and overflow-checks on for "
        "all crates",
    ]
    vlib.write_evidence(pid, tier, seed, "model_checking", coverage, assumptions, time.time() - t0, unlisted)
    vlib.log("[C17] %d abstract vectors, %d with payload x %d spellings = %d records; %d panicking records in %d classes "
             "(%d unlisted); drift %d; unresolved %d; %s" % (nabs, len(vecs), k, nrec, len(bad), len(groups), unlisted,
                                                              len(drift_only), len(hang), dict(classes)))
    return code


def replay(pid, path):
    obj = json.load(open(path))
    rep = obj["replay"]
    d = vlib.outdir(pid)
    vec = rep["vector"]
    vpath = os.path.join(d, "replay-vector.json")
    json.dump([vec], open(vpath, "w"))
    certs = make_certs(pid)
    rpath = os.path.join(d, "replay-records.ndjson")
    if vec.get("da"):
        binp = build_da()
    else:
        vlib.build_harness("pipeline")
        binp = vlib.hbin("pipeline")
    run_bin(binp, ["run", vpath, certs, rpath, rep.get("seed", 1), 1], 300)
    recs = vlib.read_ndjson(rpath)
    if not recs:
        raise vlib.ToolError("replay produced no record")
    o = _obs(pid, rpath, cfg="PipelineObs_strict.cfg", timeout=300)
    vlib.log(json.dumps(recs[0]["obs"]))
    if o.violated:
        print("VIOLATION property=%s replay=%s" % (pid, path), flush=True)
        vlib.log("  %s: TLC: invariant %s is violated on the replayed record" % (obj.get("key"), o.violated))
        return 1
    if not o.finished:
        raise vlib.ToolError("PipelineObs_strict did not complete")
    vlib.log("replay: no panic on the replayed request")
    return 0
