"""C17 -- no well-typed request value makes the client panic.

Pipeline (DESIGN.md 3.5 / 4 C17):
  1. TLC checks Pipeline.tla (the intended transcription of the validation pipeline: UriKey::try_from,
     HttpProtocol::from(version), TlsTransport::call / TlsStream::new, protocol choice, set_host_header,
     check_http2_request, check_http1_request, send) for "panic is never an outcome", with coverage.
  2. TLC (Pipeline_asbuilt.cfg) lists the vectors on which the as-built transcription panics (informative).
  3. TLC (Pipeline_gen.cfg) prints every abstract vector with the outcome classes both transcriptions allow, and
     the payload classes (header set x body) crossed onto the vectors.
  4. harness bin `pipeline`, built twice from /repo's working tree -- release, and release with debug assertions
     and overflow checks (profile `da`: what a library user building in debug gets; DESIGN D6) -- sends every
     vector as a concrete request through Client, ConnectionPoolService with and without pool, ConnectorService
     (with the builder's inner layers and bare), over plain and TLS in-memory transports to a real hyper
     server; each request inside catch_unwind on its own paused current-thread runtime with a global panic hook,
     settled and torn down before the hook log is read (panics in spawned tasks are seen).
  5. TLC (PipelineObs.tla) evaluates the property on every real record. Only a clause TLC evaluates to FALSE is
     a VIOLATION; a real outcome class the model does not allow for the vector is DRIFT.

Configurations and histories (C17 quantifies over "inputs, configurations"): the vector also carries classes of the
pool configuration, the client builder, the transport below TLS (in memory / the real TcpTransport on loopback with
TcpTransportConfig classes) and the history of the client (1st / 2nd / 3rd request to the origin; previous ones idle,
in flight, closed by the peer). The full product is far too large; TLC generates (MC_Pipeline.tla) the request grammar
at the centre of the other dimensions, every vector within NbK dimensions of five centres (all pairs of classes in
quick, all triples in thorough) and a seeded uniform sample of the full product. A configuration class whose probe
(child process, wall-clock limit) never returns is recorded as `stuck`: clause NoStall.
"""
import collections
import concurrent.futures
import json
import os
import subprocess
import time

import vlib
from c_tlsroute import make_certs

SPELLINGS = {"quick": 2, "thorough": 3}
SHARDS = {"quick": 2, "thorough": 3}          # harness processes per build
VEC_FIELDS = ("ver", "method", "uri", "host", "stack", "transport", "da")            # the request grammar
SC_FIELDS = ("net", "pool", "idle", "maxidle", "cap", "rto", "redir", "ct", "het", "hec", "ka", "buf", "hist")
REQ_DIMS = ("ver", "method", "uri", "host", "stack", "transport")
GEN_CFG = {"quick": "Pipeline_gen.cfg", "thorough": "Pipeline_gen_thorough.cfg"}
# how a dimension is spelled in a violation key: the configuration field it stands for
CFG_NAMES = {"net": "transport", "pool": "pool", "idle": "idle_timeout", "maxidle": "max_idle_per_host",
             "cap": "continue_after_preemption", "rto": "request_timeout", "redir": "redirect",
             "ct": "connect_timeout", "het": "happy_eyeballs_timeout", "hec": "happy_eyeballs_concurrency",
             "ka": "keep_alive_timeout", "buf": "buffer_size"}
TCP_DIMS = ("ct", "het", "hec", "ka", "buf")
REQUEST_SITES = ("client/conn/protocol/mod.rs", "client/conn/stream/tls.rs", "service/http.rs")
CENTRE = {}            # filled from TLC's DIMS line
DA_CFG = ["--config", 'profile.da.inherits="release"', "--config", "profile.da.debug-assertions=true",
          "--config", "profile.da.overflow-checks=true"]


def target_dir():
    return os.environ.get("VERIF_TARGET_DIR") or os.path.join(vlib.HARNESS, "target")


def build_da():
    """The same binary with debug assertions and overflow checks on for every crate (cargo profile `da`, defined
    on the command line so that Cargo.toml stays untouched); artefacts under <target>/da."""
    t = time.time()
    env = dict(os.environ, CARGO_NET_OFFLINE="true", CARGO_TARGET_DIR=target_dir())
    p = subprocess.run(["cargo", "build", "--offline", "--bin", "pipeline", "--profile", "da"] + DA_CFG,
                       cwd=vlib.HARNESS, env=env, stdout=subprocess.PIPE, stderr=subprocess.STDOUT, text=True)
    if p.returncode != 0:
        vlib.log(p.stdout[-6000:])
        raise vlib.ToolError("harness build with debug assertions failed")
    vlib.log("[build] harness bin pipeline (debug assertions) built in %.1fs" % (time.time() - t))
    return os.path.join(target_dir(), "da", "pipeline")


def run_bin(path, args, timeout):
    t = time.time()
    try:
        p = subprocess.run([path] + [str(a) for a in args], stdout=subprocess.PIPE, stderr=subprocess.PIPE, text=True,
                           timeout=timeout)
    except subprocess.TimeoutExpired:
        raise vlib.ToolError("harness %s timed out" % path)
    if p.returncode != 0:
        vlib.log(p.stderr[-4000:])
        raise vlib.ToolError("harness %s exited %d" % (path, p.returncode))
    vlib.log("[harness] %s %s: %.1fs" % (path, " ".join(map(str, args))[:120], time.time() - t))
    return json.loads(p.stdout.strip().splitlines()[-1])


def vkey(v):
    k = "/".join(str(v[f]).lower() if f == "da" else v[f] for f in VEC_FIELDS)
    sc = ",".join("%s=%s" % (f, v[f]) for f in SC_FIELDS if f in v and v[f] != CENTRE.get(f, v[f]))
    return k + ("|" + sc if sc else "")


def is_scenario(v):
    return any(v.get(f, CENTRE.get(f)) != CENTRE.get(f) for f in SC_FIELDS)


def _vectors(pid, tier, seed):
    g = vlib.tlc("MC_Pipeline", GEN_CFG[tier], pid, workers=1, timeout=1700, seed=seed)
    lines = g.printed("VEC")
    pay = g.printed("PAYLOADS")
    dims = g.printed("DIMS")
    if not g.finished or not lines or not pay or not dims:
        vlib.log(g.out[-2000:])
        raise vlib.ToolError("Pipeline_gen produced no vectors")
    CENTRE.clear()
    CENTRE.update(dims[0]["centre"])
    payloads = sorted(pay[0], key=lambda p: (p["hdr"], p["body"]))
    by = {}
    for x in lines:
        e = by.setdefault(vkey(x["v"]), {"v": x["v"], "exp": set(), "expAsBuilt": set(), "stage": set(), "stageAsBuilt": set(),
                                         "reuse": set()})
        e["expAsBuilt" if x["asBuilt"] else "exp"].update(x["exp"]["classes"])
        e["stageAsBuilt" if x["asBuilt"] else "stage"].add(x["exp"]["stage"])
        if not x["asBuilt"]:
            e["reuse"].add(x["exp"]["reuse"])
    vecs = []
    n = 0
    # the request grammar first (ids as before), then the configuration x history vectors
    for k in sorted(by, key=lambda k: (is_scenario(by[k]["v"]), k)):
        e = by[k]
        if not e["exp"] or not e["expAsBuilt"]:
            raise vlib.ToolError("Pipeline_gen: vector %s lacks an outcome" % k)
        n += 1
        # quick: one payload per vector, rotating with the seed (every payload class meets every stage many times);
        # thorough: the full cross product for the request grammar, one rotating payload for the others
        full = tier == "thorough" and not is_scenario(e["v"])
        ps = payloads if full else [payloads[(n + seed) % len(payloads)]]
        for p in ps:
            v = dict(e["v"])
            v.update(hdr=p["hdr"], body=p["body"], id=len(vecs) + 1,
                     exp={"classes": sorted(e["exp"]), "stage": "+".join(sorted(e["stage"])), "reuse": sorted(e["reuse"])},
                     expAsBuilt={"classes": sorted(e["expAsBuilt"]), "stage": "+".join(sorted(e["stageAsBuilt"]))})
            if is_scenario(v):
                # the configuration x history vectors in their first (canonical) spelling: spellings belong to the
                # request grammar; over real sockets a request the peer answers only after its 5 s body timeout
                # (a lying content-length) would cost 5 s of wall clock each
                v["spx"] = 0
            vecs.append(v)
    return vecs, len(by), payloads, dims[0]["dom"], g


def _obs(pid, records_path, cfg="PipelineObs.cfg", timeout=1700):
    r = vlib.tlc("PipelineObs", cfg, pid, workers=1, timeout=timeout, xmx="12g",
                 env={"TRACE": os.path.abspath(records_path)})
    if "Invariant WellFormed is violated" in r.out:
        vlib.log(r.out[-3000:])
        raise vlib.ToolError("PipelineObs: a record is outside the domain of the spec (harness/spec mismatch)")
    return r


def _request_key(rec):
    """Stable key of a failing REQUEST class: where it panics, in which kind of task, and the request attribute that
    reaches that panic site (version for the protocol conversion, host form for the server name, ...)."""
    v, o = rec["v"], rec["obs"]
    f = o.get("panicFile", "?")
    where = "caller" if o["result"] == "panic" else "task"
    if f.endswith("client/conn/protocol/mod.rs"):
        attr = "version=HTTP/%s" % v["ver"]
    elif f.endswith("client/conn/stream/tls.rs"):
        attr = "tls-host=%s" % {"v6": "[v6]"}.get(v["host"], v["host"])
    elif f.endswith("service/http.rs"):
        attr = "method=%s;uri=%s" % ("CONNECT" if v["method"] == "CONNECT" else "non-CONNECT", v["uri"])
    else:
        # a panic site this check has no specific projection for: the site itself (file, task kind, message) is the
        # class, refined by the coarse shape of the request
        attr = "method=%s;uri=%s" % ("CONNECT" if v["method"] == "CONNECT" else "non-CONNECT",
                                     v["uri"] if v["uri"] in ("origin", "authority", "asterisk") else "absolute")
    msg = (o.get("panicMsg") or "")[:40].replace(" ", "_")
    return "%s:%s@%s(%s):%s" % ("debug-assertions" if v["da"] else "release", attr, f, where, msg)


def _hist_name(h):
    if h in ("", "first"):
        return "first"
    parts = h.split("-")
    return ("second-" if len(parts) == 1 else "third-") + "-".join(parts)


def _deviation(v):
    """(configuration items, request items) in which the vector differs from the centre, in the words of the key."""
    cfg = ["%s:%s" % (CFG_NAMES[d], v[d]) for d in SC_FIELDS if d != "hist" and v[d] != CENTRE.get(d, v[d])]
    req = ["%s:%s" % (d, v[d]) for d in REQ_DIMS if v[d] != CENTRE.get(d, v[d]) and not (d == "host" and v[d] == "v4" and v["net"] == "tcp")]
    return cfg, req


def _site(rec, clause):
    o = rec["obs"]
    if clause == "NoStall":
        return "stall", "executor-thread-blocked"
    where = o.get("panicWhere") or ("caller" if o["result"] == "panic" else "task")
    msg = (o.get("panicMsg") or "")[:40].replace(" ", "_")
    return "panic", "%s(%s):%s" % (o.get("panicFile", "?"), where, msg)


def _group_violations(recs, bad):
    """bad: [(record index (1-based), clause)]. Classes of failing vectors with stable, specific keys:
    * a vector of the request grammar (centre of every other dimension), or a panic at one of the request
      conversion sites: the request key (unchanged from the grammar-only check);
    * otherwise one class per (build, clause, site, history at the first panic):
      `<build>:<panic|stall>:cfg=<configuration classes>;history=<history>[;req=<request classes>]@<site>`, listing the
      classes off the centre that ALL failing vectors of the class have in common (the neighbourhoods contain the
      vectors that differ from a centre in nothing else, so the key names the classes that matter; a second defect
      at the same site and history changes the key). The member with the fewest deviations comes first (replay)."""
    groups = collections.OrderedDict()
    scen = collections.OrderedDict()
    for i, clause in bad:
        rec = recs[i - 1]
        v, o = rec["v"], rec["obs"]
        f = o.get("panicFile", "")
        if clause == "NoPanic" and (not is_scenario(v) or any(f.endswith(x) for x in REQUEST_SITES)):
            groups.setdefault(_request_key(rec), []).append(i)
            continue
        kind, site = _site(rec, clause)
        # the harness names the history at the first panic (the requests before the one during which it was raised)
        hist = (o.get("panicHist") or _hist_name(v["hist"])) if clause == "NoPanic" else _hist_name(v["hist"])
        cfg, req = _deviation(v)
        scen.setdefault(("debug-assertions" if v["da"] else "release", kind, site, hist), []).append((cfg, req, i))
    for (build, kind, site, hist), members in scen.items():
        members.sort(key=lambda m: (len(m[0]) + len(m[1]), m[0], m[1], m[2]))
        cfg = [x for x in members[0][0] if all(x in m[0] for m in members)]
        req = [x for x in members[0][1] if all(x in m[1] for m in members)]
        key = "%s:%s:cfg=%s;history=%s%s@%s" % (build, kind, "+".join(cfg) or "default", hist,
                                              (";req=" + "+".join(req)) if req else "", site)
        groups.setdefault(key, []).extend(m[2] for m in members)
    return groups


def _describe(rec):
    v, o, sp = rec["v"], rec["obs"], rec["sp"]
    cfg, _ = _deviation(v) if CENTRE else ([], [])
    ctx = ""
    if cfg or v.get("hist", "first") != "first":
        ctx = " [configuration: %s; history: %s, previous requests: %s]" % (
            ", ".join(cfg) or "default", _hist_name(v["hist"]),
            ", ".join("%s->%s%s" % (p.get("state"), p.get("result"), ("/" + p["later"]) if p.get("later") else "") for p in o.get("prev", [])) or "none")
    if o.get("stuck"):
        return ("%s build: the request future never returned from a poll (probe in a child process killed after 10 s of "
                "wall clock, twice): stack=%s transport=%s/%s%s: %s" % (
                    "debug-assertions" if v["da"] else "release", v["stack"], v.get("net", "mem"), v["transport"], ctx, o.get("why")))
    return ("%s build: %s %s %s (headers: %s; body %d bytes) through stack=%s transport=%s/%s%s: panic '%s' at %s in %s "
            "(result to the caller: %s, %d panic(s) recorded%s)" % (
                "debug-assertions" if v["da"] else "release", sp["method"], sp["uri"][:100], sp["version"], v["hdr"], sp["bodyLen"],
                v["stack"], v.get("net", "mem"), v["transport"], ctx, o.get("panicMsg"), o.get("panicLoc"),
                "the caller's task" if o["result"] == "panic" else "a spawned task or an earlier request", o["result"], o.get("panics", 0),
                ("; first panic during request %s" % o["panicStep"]) if o.get("panicStep") not in (None, "") else ""))


def _pair_coverage(dom, vectors):
    """how much of the pairwise product of classes the executed vectors cover (raw pairs, before normalisation)"""
    dims = sorted(dom)
    seen = set()
    for v in vectors:
        for i, d1 in enumerate(dims):
            for d2 in dims[i + 1:]:
                seen.add((d1, v[d1], d2, v[d2]))
    total = sum(len(dom[d1]) * len(dom[d2]) for i, d1 in enumerate(dims) for d2 in dims[i + 1:])
    missing = [(d1, a, d2, b) for i, d1 in enumerate(dims) for d2 in dims[i + 1:] for a in dom[d1] for b in dom[d2]
               if (d1, a, d2, b) not in seen]
    return total, len(seen), missing


def _execute(ex, pid, tier, seed, vpath, certs, rel_bin, da_bin, k, shards):
    """4. the real code: both builds; first the probes (one configuration class off the centre, child processes under
    a wall-clock limit), then `shards` processes per build (vector id modulo shards)"""
    d = vlib.outdir(pid)
    bins = (("release", rel_bin), ("da", da_bin))
    pj = {name: ex.submit(run_bin, binp, ["probe", vpath, certs, os.path.join(d, "records-%s-probe.ndjson" % name), seed, k], 600)
          for name, binp in bins}
    probes = {name: j.result() for name, j in pj.items()}
    jobs = []
    for name, binp in bins:
        pf = os.path.join(d, "records-%s-probe.ndjson.probe.json" % name)
        for sh in range(shards):
            out = os.path.join(d, "records-%s-%d.ndjson" % (name, sh))
            jobs.append((name, out, ex.submit(run_bin, binp, ["run", vpath, certs, out, seed, k, sh, shards, pf], 2400)))
    stats = {"release": [], "da": []}
    paths = [os.path.join(d, "records-%s-probe.ndjson" % name) for name, _ in bins]
    for name, out, j in jobs:
        stats[name].append(j.result())
        paths.append(out)

    def merge(name):
        ss, pr = stats[name], probes[name]
        m = {"records": sum(x["records"] for x in ss) + pr["records"], "skipped": sum(x["skipped"] for x in ss),
             "vectors": sum(x["vectors"] for x in ss), "debug_assertions": ss[0]["debug_assertions"], "probes": pr["probes"],
             "stuck_classes": sorted("%s=%s" % (a, b) for a, b in pr["stuck"]),
             "not_executed": sum(x.get("not_executed", 0) for x in ss), "processes": len(ss)}
        if any(x["debug_assertions"] != m["debug_assertions"] for x in ss) or pr["debug_assertions"] != m["debug_assertions"]:
            raise vlib.ToolError("processes of one build differ in debug assertions")
        return m
    return merge("release"), merge("da"), paths


def run(pid, tier, seed, t0):
    d = vlib.outdir(pid)
    # builds in parallel: release (vlib) and release + debug assertions
    with concurrent.futures.ThreadPoolExecutor(max_workers=8) as ex:
        f_rel = ex.submit(vlib.build_harness, "pipeline")
        f_da = ex.submit(build_da)
        # 2. as-built prediction and 3. vectors (meanwhile, one worker each)
        f_ab = ex.submit(vlib.tlc, "MC_Pipeline", "Pipeline_asbuilt.cfg", pid, workers=1, timeout=1700, seed=seed)
        f_vec = ex.submit(_vectors, pid, tier, seed)
        # 1. the model
        m = vlib.tlc("MC_Pipeline", "Pipeline_%s.cfg" % tier, pid, workers=2, timeout=1700, coverage=True, seed=seed)
        if not m.finished or m.violated:
            vlib.log(m.out[-3000:])
            raise vlib.ToolError("Pipeline.tla: the intended transcription has a panic outcome (spec error)")
        cov = m.coverage()
        never = sorted(a for a, (dist, taken) in cov.items() if taken == 0)
        vecs, nabs, payloads, dom, gen = f_vec.result()
        ab = f_ab.result()
        pred = collections.Counter(b["stage"] for b in ab.printed("ABBAD"))
        pred_keys = {vkey(b["v"]) for b in ab.printed("ABBAD")}
        demo = None
        if tier == "thorough":
            # standing demonstration (DESIGN 2.4): TLC must refute "no panic" on the as-built transcription
            st = vlib.tlc("MC_Pipeline", "Pipeline_asbuilt_strict.cfg", pid, workers=1, timeout=600, seed=seed)
            demo = st.violated
            if st.violated != "AsBuiltHolds":
                raise vlib.ToolError("Pipeline_asbuilt_strict: TLC did not refute the as-built transcription")
        vpath = os.path.join(d, "vectors.json")
        json.dump(vecs, open(vpath, "w"))
        certs = make_certs(pid)
        f_rel.result()
        da_bin = f_da.result()
        # 4. the real code, both builds
        k = SPELLINGS[tier]
        s1, s2, paths = _execute(ex, pid, tier, seed, vpath, certs, vlib.hbin("pipeline"), da_bin, k, SHARDS[tier])
    if s1["debug_assertions"] or not s2["debug_assertions"]:
        raise vlib.ToolError("the two builds do not differ in debug assertions: %s %s" % (s1, s2))
    rpath = os.path.join(d, "records.ndjson")
    with open(rpath, "w") as f:
        for p in paths:
            f.write(open(p).read())
    recs = vlib.read_ndjson(rpath)
    nrec = len(recs)
    expected = sum(1 if "spx" in v else k for v in vecs)
    if nrec != s1["records"] + s2["records"] or nrec + s1["skipped"] + s2["skipped"] != expected:
        raise vlib.ToolError("harness executed %d records (+%d skipped) for %d vectors (%d expected)" % (
            nrec, s1["skipped"] + s2["skipped"], len(vecs), expected))
    # 5. the monitor
    o = _obs(pid, rpath)
    cons = [l for l in o.out.splitlines() if l.startswith('<<"CONSUMED"')]
    if not o.finished or not cons or o.distinct != nrec:
        vlib.log(o.out[-3000:])
        raise vlib.ToolError("PipelineObs did not consume the %d records (distinct=%d)" % (nrec, o.distinct))
    badc = [(b["i"], b["clause"]) for b in o.printed("BAD")]
    bad = sorted({i for i, _ in badc})
    hang = [b["i"] for b in o.printed("HANG")]
    diffi = {x["i"] for x in o.printed("DIFFI")}
    diffa = {x["i"] for x in o.printed("DIFFA")}
    diffr = {x["i"] for x in o.printed("DIFFR")}

    verdict = vlib.Verdict(pid)
    groups = _group_violations(recs, sorted(badc))
    for key, members in groups.items():
        rec = recs[members[0] - 1]
        vec = dict(rec["v"], id=rec["id"], spx=rec["spx"], exp=rec["exp"], expAsBuilt=rec["expAsBuilt"])
        verdict.violation(key, _describe(rec) + " [%d records in this class]" % len(members),
                          {"seed": seed, "vector": vec, "record": rec, "records_in_class": len(members)})
    # extension stages (own specs, same verdict; for C17 each registers panics only)
    call = __import__("x_tcpcall").stage(pid, tier, seed, verdict)
    body = __import__("x_body").stage(pid, tier, seed, verdict)
    connector = __import__("x_connector").stage(pid, tier, seed, verdict)
    code, unlisted = verdict.finish()

    badset = set(bad)
    drift_only = sorted(i for i in diffi if i not in badset)
    for i in drift_only[:8]:
        r = recs[i - 1]
        vlib.log("DRIFT C17 record %d %s: %s %s %s: model allows %s (stage %s), real %s %s" % (
            i, vkey(r["v"]), r["sp"]["method"], r["sp"]["uri"][:60], r["sp"]["version"], r["exp"]["classes"], r["exp"]["stage"],
            r["obs"]["class"], (r["obs"].get("errMsg") or r["obs"].get("status"))))
    for i in sorted(diffr)[:8]:
        r = recs[i - 1]
        vlib.log("DRIFT C17 (re-use) record %d %s: %s %s %s: model says re-use %s, real dialled %d for the request; previous %s" % (
            i, vkey(r["v"]), r["sp"]["method"], r["sp"]["uri"][:60], r["sp"]["version"], r["exp"].get("reuse"), r["obs"]["dialsFinal"],
            [(p.get("state"), p.get("result")) for p in r["obs"].get("prev", [])]))
    for i in hang[:5]:
        r = recs[i - 1]
        vlib.log("UNRESOLVED C17 record %d %s: %s %s %s hdr=%s" % (i, vkey(r["v"]), r["sp"]["method"], r["sp"]["uri"][:60],
                                                               r["sp"]["version"], r["v"]["hdr"]))
    bad_vecs = {vkey(recs[i - 1]["v"]) for i in bad}
    classes = collections.Counter("%s/%s" % (r["build"], r["obs"]["class"]) for r in recs)
    nontrivial = len({(vkey(r["v"]), r["v"]["hdr"], r["v"]["body"], r["sp"]["method"], r["sp"]["uri"], tuple(r["sp"]["headers"]),
                       r["sp"]["bodyLen"]) for r in recs if r["obs"]["conns"] > 0 or r["obs"]["panicked"]})
    sample_ids = [1, nrec // 4, nrec // 2, (3 * nrec) // 4, nrec]
    samples = [{"build": recs[i - 1]["build"], "v": recs[i - 1]["v"],
                "request": "%s %s %s" % (recs[i - 1]["sp"]["method"], recs[i - 1]["sp"]["uri"][:80], recs[i - 1]["sp"]["version"]),
                "obs": {f: recs[i - 1]["obs"].get(f) for f in ("result", "status", "errKind", "panicLoc", "taskPanics", "conns", "dialsFinal", "prev")}}
               for i in sample_ids if 1 <= i <= nrec]
    # configuration x history: what was covered
    scen = [r for r in recs if is_scenario(r["v"])]
    scen_vecs = {vkey(r["v"]): r["v"] for r in scen}
    product = 1
    for dd in dom.values():
        product *= len(dd)
    ptotal, pseen, pmissing = _pair_coverage(dom, [r["v"] for r in recs])
    by_hist = collections.OrderedDict()
    for r in scen:
        h = by_hist.setdefault(_hist_name(r["v"]["hist"]), collections.Counter())
        h["records"] += 1
        h["answered_without_dialling"] += 1 if (r["obs"]["result"] == "resp" and r["obs"]["dialsFinal"] == 0) else 0
        h["previous_still_in_flight"] += 1 if any(p.get("result") == "inflight" for p in r["obs"].get("prev", [])) else 0
        h[r["obs"]["class"]] += 1
    by_dim = {dd: dict(collections.Counter(r["v"][dd] for r in scen)) for dd in SC_FIELDS}
    coverage = {
        "tcp_call_model": call, "body_model": body, "connector_model": connector,
        "states": m.distinct, "transitions": m.generated, "depth": m.depth,
        "traces_validated_against_impl": nrec,
        "samples": samples,
        "evaluations": nrec,
        "distinct_nontrivial": nontrivial,
        "rule": "request grammar: every vector of version(5) x method(5) x URI form(8) x host form(5, where the form has a host) x "
                "stack(5) x transport(3) x build(2) from TLC at the centre of the configuration and history dimensions, crossed with "
                "header-set(4) x body(2) payload classes (%s); configuration x history: every vector within %d dimensions of 5 centres "
                "over 19 dimensions (request 6, net, pool, idle_timeout 5, max_idle_per_host 4, continue_after_preemption, request "
                "timeout 4, redirect, connect / happy-eyeballs / keep-alive timeout 4 each, happy-eyeballs concurrency 5, buffer "
                "size 3, history 13) plus a seeded uniform sample of the full product, both builds, one rotating payload, canonical spelling; "
                "the request grammar in %d seeded spelling(s) each; all sent through the real stacks; non-trivial = distinct concrete request that reached the transport "
                "(a connection was dialled) or panicked" % (
                    "all 8 per vector" if tier == "thorough" else "one per vector, rotating with the seed",
                    3 if tier == "thorough" else 2, k),
        "exhaustive": False,
        "exhaustive_note": "the request grammar at default configuration is enumerated completely%s; the product with configurations "
                           "and histories (%.3g combinations per build before normalisation) is stratified and sampled" % (
                               " with every payload" if tier == "thorough" else "", float(product)),
        "abstract_vectors": nabs, "vectors_with_payload": len(vecs), "spellings": k,
        "configuration_history": {
            "full_product_per_build": product, "dimensions": {dd: dom[dd] for dd in sorted(dom)},
            "vectors": len(scen_vecs), "records": len(scen),
            "pairs_of_classes": {"raw_total": ptotal, "covered": pseen,
                                 "not_covered_examples": ["%s=%s,%s=%s" % x for x in pmissing[:6]],
                                 "note": "pairs that normalisation removes (a class of a dimension that cannot influence the "
                                         "stack, e.g. a TcpTransportConfig class without the TCP transport) are counted in raw_total"},
            "by_history": {h: dict(c) for h, c in by_hist.items()},
            "by_dimension": by_dim,
            "probes": {"release": s1["probes"], "debug_assertions": s2["probes"]},
            "stuck_classes": sorted(set(s1["stuck_classes"]) | set(s2["stuck_classes"])),
            "not_executed_stuck_class": s1["not_executed"] + s2["not_executed"],
            "reuse_drift": len(diffr),
        },
        "builds": {"release": s1, "debug_assertions": s2},
        "tlc_coverage": {a: {"distinct": c[0], "taken": c[1]} for a, c in sorted(cov.items())},
        "actions_never_taken": never,
        "monitor": {"records": nrec, "states": o.distinct, "panicking_records": len([1 for _, c in badc if c == "NoPanic"]),
                    "stalled_records": len([1 for _, c in badc if c == "NoStall"]), "violation_classes": len(groups),
                    "unresolved_requests": len(hang)},
        "as_built_prediction": {"vectors": len(pred_keys), "by_stage": dict(pred), "tlc_refutes_as_built_model": demo,
                                "predicted_and_observed": len(pred_keys & bad_vecs),
                                "predicted_not_observed": len(pred_keys - bad_vecs),
                                "observed_not_predicted": len(bad_vecs - pred_keys)},
        "drift": {"records_outside_intended_model": len(diffi), "of_which_not_violations": len(drift_only),
                  "records_outside_as_built_model": len(diffa), "connection_reuse_against_model": len(diffr),
                  "examples": [{"vector": vkey(recs[i - 1]["v"]), "request": "%s %s" % (recs[i - 1]["sp"]["method"], recs[i - 1]["sp"]["uri"][:60]),
                                "model": recs[i - 1]["exp"], "real": recs[i - 1]["obs"]["class"]} for i in drift_only[:5]]},
        "outcome_classes": dict(classes),
        "repo_tree": vlib.repo_tree_id(),
    }
    assumptions = [
        "only the enumerated request grammar (classes and their seeded spellings); header names/values and bodies are "
        "whatever the http crate accepts as well-typed",
        "configurations and histories by classes (extreme and default values of every duration / count the pool, the client "
        "builder and TcpTransportConfig expose; up to two previous requests); combinations: all pairs (quick) / triples "
        "(thorough) around five centres plus a uniform sample, not the full product",
        "panics are observed through the global panic hook and catch_unwind on a single-threaded runtime that is settled "
        "and dropped per request; a panic that would only occur on a multi-threaded runtime is not seen",
        "the in-memory transport (or loopback TCP) and the hyper peer stand for the network; rustls and hyper are trusted not "
        "to hide panics (a panic inside them is recorded like any other); redirects are configured but the peer never redirects",
        "debug-assertions configuration = cargo profile inheriting release with debug-assertions and overflow-checks on for "
        "all crates",
        "a poll that never returns is detected only for single configuration classes off the centre (probe in a child "
        "process); in a combination it would end the run as a tool failure (watchdog), not as a verdict",
    ]
    vlib.write_evidence(pid, tier, seed, "model_checking", coverage, assumptions, time.time() - t0, unlisted)
    vlib.log("[C17] %d abstract vectors (%d configuration x history), %d with payload x %d spellings = %d records; %d failing records "
             "in %d classes (%d unlisted); drift %d (+%d re-use); unresolved %d; pairs of classes covered %d/%d; %s" % (
                 nabs, len(scen_vecs), len(vecs), k, nrec, len(bad), len(groups), unlisted, len(drift_only), len(diffr), len(hang),
                 pseen, ptotal, dict(classes)))
    return code


def replay(pid, path):
    obj = json.load(open(path))
    _rk = obj.get("replay", {}).get("kind") if isinstance(obj.get("replay"), dict) else None
    if _rk == "connector-trace":
        return __import__("x_connector").replay(pid, obj)
    if _rk == "body-ops":
        return __import__("x_body").replay(pid, obj)
    if _rk == "tcpcall-row":
        _c = __import__("x_tcpcall").replay(pid, obj)
        if _c:
            print("VIOLATION property=%s replay=%s" % (pid, path), flush=True)
        return _c
    rep = obj["replay"]
    d = vlib.outdir(pid)
    vec = rep["vector"]
    vpath = os.path.join(d, "replay-vector.json")
    json.dump([vec], open(vpath, "w"))
    certs = make_certs(pid)
    rpath = os.path.join(d, "replay-records.ndjson")
    if vec.get("da"):
        binp = build_da()
    else:
        vlib.build_harness("pipeline")
        binp = vlib.hbin("pipeline")
    run_bin(binp, ["run", vpath, certs, rpath, rep.get("seed", 1), 1], 300)
    recs = vlib.read_ndjson(rpath)
    if not recs:
        raise vlib.ToolError("replay produced no record")
    o = _obs(pid, rpath, cfg="PipelineObs_strict.cfg", timeout=300)
    vlib.log(json.dumps(recs[0]["obs"]))
    if o.violated:
        print("VIOLATION property=%s replay=%s" % (pid, path), flush=True)
        vlib.log("  %s: TLC: invariant %s is violated on the replayed record" % (obj.get("key"), o.violated))
        return 1
    if not o.finished:
        raise vlib.ToolError("PipelineObs_strict did not complete")
    vlib.log("replay: no panic on the replayed request")
    return 0
