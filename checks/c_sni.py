"""C20 -- SNI validation forwards a request only if its host is the TLS server name.

Pipeline (DESIGN.md 3.5 / 4 C20):
  1. TLC checks Sni.tla (intended decision function) against the C20 clauses, with coverage.
  2. TLC runs the as-built transcription (Sni_asbuilt.cfg, -continue): the vectors on which the
     transcription of the pinned sni.rs breaks C20 (prediction, informative).
  3. TLC (Sni_gen.cfg) prints every abstract vector of the cross product.
  4. harness bin `sni` instantiates every vector with K seeded spellings and pushes each through
     the REAL public ValidateSNI layer; one ndjson record per request.
  4b. chain binding: TLC checks the per-connection info state machine of Sni.tla (ConnSpec: Pending/Received/Empty,
     requests started / cancelled while waiting / handshake) and writes every maximal behaviour x scenario
     (Sni_conngen.cfg); harness `sni chain` replays each on the REAL chain TLS acceptor -> info channel
     (info/tls.rs) -> TlsConnectionInfoLayer's service (server/conn/tls/info.rs) -> ValidateSNI -> recording app over a
     real in-memory TLS handshake (certificate generated with openssl under out/C20/certs); one record per request
     of the connection, carrying the ground truth "arrived over TLS".
  5. TLC (SniObs.tla, -continue) evaluates the C20 clauses on every record. Only its rejection of
     a record produces a VIOLATION. Differences from the modelled functions that keep the clauses
     are DRIFT (stderr + evidence), exit 0.
"""
import glob
import json
import os
import subprocess
import time

import vlib

PID = "C20"
SPELLINGS = {"quick": 6, "thorough": 60}
CHAIN_REPS = {"quick": 1, "thorough": 10}


def make_cert(pid):
    """A throw-away self-signed server certificate (the client of the chain binding accepts any certificate)."""
    d = os.path.join(vlib.outdir(pid), "certs")
    os.makedirs(d, exist_ok=True)
    p = subprocess.run(["openssl", "req", "-x509", "-newkey", "ec", "-pkeyopt", "ec_paramgen_curve:P-256", "-nodes",
                        "-keyout", os.path.join(d, "key.pem"), "-out", os.path.join(d, "cert.pem"), "-days", "30",
                        "-subj", "/CN=verif C20", "-addext", "subjectAltName=DNS:example.com"],
                       stdout=subprocess.PIPE, stderr=subprocess.STDOUT, text=True, timeout=120)
    if p.returncode != 0 or not os.path.exists(os.path.join(d, "cert.pem")):
        vlib.log(p.stdout[-2000:])
        raise vlib.ToolError("openssl could not generate the test certificate")
    return d


def _obs(pid, records_path, timeout=1500):
    r = vlib.tlc("SniObs", "SniObs.cfg", pid, workers=1, timeout=timeout, xmx="6g",
                 env={"TRACE": os.path.abspath(records_path)}, extra=["-continue"])
    cons = [l for l in r.out.splitlines() if l.startswith('<<"CONSUMED"')]
    if not r.finished or not cons:
        vlib.log(r.out[-3000:])
        raise vlib.ToolError("SniObs did not complete")
    if "Invariant WellFormed is violated" in r.out:
        vlib.log(r.out[-3000:])
        raise vlib.ToolError("SniObs: a record is outside the domain of the spec (harness/spec mismatch)")
    bad = r.printed("BAD")
    return r, bad, r.printed("DIFFI"), r.printed("DIFFA")


def _key(k):
    return "%s:%s:%s" % (k["family"], k["clause"], "/".join(k["class"]))


def _describe(rec, k):
    c, o = rec["c"], rec["o"]
    if c.get("mode") == "chain":
        return ("clause %s fails on request #%d of a TLS connection (SNI %s) after the events %s "
                "(S=request started, D=suspended request future dropped, H=handshake completed): HTTP/%s uri=%s Host=%s "
                "-> %s%s, application saw TLS info: %s%s" % (
                    k["clause"], c["pos"], repr(c["sni"]) if c["has_sni"] else "<none sent>", c["beh"], c["ver"], c["uri"],
                    repr(c["host"]) if c["has_host"] else "<absent>", o["kind"], " validated" if o["validated"] else "",
                    o["saw_tls"], (" (" + o["err"] + ")") if o["err"] else ""))
    return ("clause %s fails: HTTP/%s request uri=%s Host=%s over TLS with SNI=%s -> %s%s%s" % (
        k["clause"], c["ver"], c["uri"], repr(c["host"]) if c["has_host"] else "<absent>",
        repr(c["sni"]) if c["has_sni"] else "<absent>", o["kind"],
        " validated" if o["validated"] else "", (" (" + o["err"] + ")") if o["err"] else ""))


def run(pid, tier, seed, t0):
    d = vlib.outdir(pid)
    for old in glob.glob(os.path.join(d, "violation-*.json")):
        os.remove(old)
    # 1. the model
    m = vlib.tlc("MC_Sni", "Sni_%s.cfg" % tier, pid, workers=4, timeout=600, coverage=True)
    if not m.finished or m.violated:
        vlib.log(m.out[-3000:])
        raise vlib.ToolError("Sni.tla: the intended decision function does not satisfy the C20 clauses (spec error)")
    cov = m.coverage()
    never = sorted(a for a, (dist, taken) in cov.items() if taken == 0)
    # 2. as-built prediction
    ab = vlib.tlc("MC_Sni", "Sni_asbuilt.cfg", pid, workers=1, timeout=600, extra=["-continue"])
    predicted = {"/".join(b["v"][f] for f in ("ver", "hosthdr", "auth", "sni")) for b in ab.printed("BAD")}
    # 3. vectors
    g = vlib.tlc("MC_Sni", "Sni_gen.cfg", pid, workers=1, timeout=600)
    vecs = g.printed("VEC")
    if not g.finished or not vecs:
        raise vlib.ToolError("Sni_gen produced no vectors")
    vpath = os.path.join(d, "vectors.ndjson")
    vlib.write_ndjson(vpath, vecs)
    # 4. the real code: ValidateSNI with a hand-built TLS info extension
    rpath = os.path.join(d, "records.ndjson")
    k = SPELLINGS[tier]
    out = vlib.run_harness("sni", ["gen", vpath, rpath, seed, k], timeout=900)
    ndirect = json.loads(out.strip().splitlines()[-1])["records"]
    if ndirect != len(vecs) * k:
        raise vlib.ToolError("harness executed %d of %d requests" % (ndirect, len(vecs) * k))
    # 4b. the real chain acceptor -> info channel -> TlsConnectionInfoLayer -> ValidateSNI
    cm = vlib.tlc("MC_Sni", "Sni_conn.cfg", pid, workers=4, timeout=600, coverage=True)
    if not cm.finished or cm.violated:
        vlib.log(cm.out[-3000:])
        raise vlib.ToolError("Sni.tla ConnSpec: the connection machine violates its invariants (spec error)")
    ccov = cm.coverage()
    taken = vlib.tlc("MC_Sni", "Sni_conn_taken.cfg", pid, workers=1, timeout=600, extra=["-continue"])
    refuted_states = len(taken.printed("CONNBAD"))
    cpath = os.path.join(d, "chain.ndjson")
    if os.path.exists(cpath):
        os.remove(cpath)
    cg = vlib.tlc("MC_Sni", "Sni_conngen.cfg", pid, workers=1, timeout=600, env={"GEN_OUT": cpath})
    gl = [l for l in cg.out.splitlines() if l.startswith('<<"CHAINGEN"')]
    if not cg.finished or not gl or not os.path.exists(cpath):
        vlib.log(cg.out[-3000:])
        raise vlib.ToolError("Sni_conngen produced no scenarios")
    n_beh, n_scn = [int(x) for x in gl[0].strip("<>").split(",")[1:]]
    certs = make_cert(pid)
    crpath = os.path.join(d, "chain-records.ndjson")
    reps = CHAIN_REPS[tier]
    out = vlib.run_harness("sni", ["chain", cpath, crpath, seed, reps], timeout=900, env={"C20_CERTS": certs})
    cj = json.loads(out.strip().splitlines()[-1])
    if cj["connections"] != n_beh * n_scn * reps:
        raise vlib.ToolError("harness replayed %d of %d connection scenarios" % (cj["connections"], n_beh * n_scn * reps))
    nchain = cj["records"]
    with open(rpath, "a") as f, open(crpath) as g2:
        for line in g2:
            f.write(line)
    nrec = ndirect + nchain
    recs = vlib.read_ndjson(rpath)
    # 5. the monitor
    o, bad, diffi, diffa = _obs(pid, rpath)
    if o.distinct != nrec:
        raise vlib.ToolError("SniObs consumed %d of %d records" % (o.distinct, nrec))
    diffc = o.printed("DIFFC")
    judged_chain = sum(1 for r in recs[ndirect:] if r["o"]["kind"] != "dropped")

    verdict = vlib.Verdict(pid)
    by_key = {}
    for b in bad:
        by_key.setdefault(_key(b["key"]), []).append(b)
    for key in sorted(by_key):
        bs = by_key[key]
        rec = recs[bs[0]["i"] - 1]
        verdict.violation(key, _describe(rec, bs[0]["key"]) + " [%d records of this class]" % len(bs),
                          {"records": [recs[b["i"] - 1] for b in bs[:3]]})
    bad_idx = {b["i"] for b in bad}
    drift_idx = sorted({x["i"] for x in diffi} - bad_idx)
    observed_bad_classes = {"/".join(recs[i - 1]["v"][f] for f in ("ver", "hosthdr", "auth", "sni")) for i in bad_idx}
    drift = {"chain_records_not_matching_the_connection_model": len(diffc),
             "records_differing_from_intended_without_violation": len(drift_idx),
             "records_differing_from_asbuilt_transcription": len(diffa),
             "examples": [recs[i - 1] for i in drift_idx[:3]],
             "asbuilt_predicted_violating_classes": len(predicted),
             "observed_violating_classes": len(observed_bad_classes),
             "prediction_matches_observation": predicted == observed_bad_classes}
    if diffc:
        vlib.log("DRIFT property=%s: %d chain records do not match the status/timing the connection model expects, e.g. %s"
                 % (pid, len(diffc), json.dumps({k2: v2 for k2, v2 in recs[diffc[0]["i"] - 1]["c"].items()
                                                 if k2 != "chain_json"})[:500]))
    if drift_idx:
        vlib.log("DRIFT property=%s: %d records differ from the modelled decision function without breaking a clause, e.g. %s"
                 % (pid, len(drift_idx), json.dumps(recs[drift_idx[0] - 1])[:500]))
    vlib.log("[C20] transcription of the ORIGINAL (pre-88bb6a9) sni.rs: predicts %d violating classes; this tree shows %d; "
             "%d records differ from that transcription" % (len(predicted), len(observed_bad_classes), len(diffa)))
    import x_tlsstream
    tls_stage = x_tlsstream.stage(pid, tier, seed, verdict)      # TlsStream.tla: the C20 clauses (T4: info published once, after success)
    conn_info = __import__("x_conninfo").stage(pid, tier, seed, verdict)   # ConnInfo.tla: the TLS info / SNI a request carries is its own connection's
    code, unlisted = verdict.finish()

    subject = sum(1 for v in vecs if v["subject"])
    distinct_req = len({json.dumps(r["c"], sort_keys=True) for r in recs[:ndirect]})
    def slim(r):
        return {"i": r["i"], "v": r["v"], "c": {k2: v2 for k2, v2 in r["c"].items() if k2 != "chain_json"}, "o": r["o"]}
    samples = [recs[0], recs[ndirect // 2], slim(recs[ndirect + nchain // 3]), slim(recs[-1])]
    if bad:
        samples.append(slim(recs[bad[0]["i"] - 1]))
    vlib.write_evidence(
        pid, tier, seed, "model_checking",
        {
            "tls_stream_model": tls_stage, "conn_info_model": conn_info,
            "states": m.distinct + cm.distinct, "transitions": (m.generated - len(vecs)) + (cm.generated - n_scn),
            "traces_validated_against_impl": nrec,
            "samples": samples,
            "evaluations": nrec,
            "distinct_nontrivial": sum(1 for v in vecs if v["subject"]),
            "rule": "TLC enumerates the cross product version{1.0,1.1,2} x Host header{9 forms} x URI authority{9 forms} x "
                    "SNI{4 forms} x TLS info{present,absent} = %d abstract vectors; each is instantiated with %d seeded "
                    "spellings (names, letter case, ports, IPv4/IPv6 literals, paths) and executed on the real ValidateSNI "
                    "layer; distinct_nontrivial counts the abstract vectors the property text constrains (TLS info present "
                    "and a host named); %d distinct concrete requests were executed. Chain binding: TLC enumerates the %d maximal "
                    "behaviours of the connection machine (requests started in order, suspended request futures dropped, "
                    "handshake completing at any point) x %d scenarios (version{1.1,2} x SNI{sent,not sent} x host class "
                    "{match,differ,absent}^3) = %d connections x %d seeded spelling(s), each replayed over a real in-memory TLS "
                    "handshake through acceptor -> info channel -> TlsConnectionInfoLayer -> ValidateSNI: %d request records, "
                    "%d of them completed (judged)" % (len(vecs), k, distinct_req, n_beh, n_scn, n_beh * n_scn, reps,
                                                        nchain, judged_chain),
            "exhaustive": True,
            "abstract_vectors": len(vecs), "vectors_constrained_by_text": subject,
            "vector_model_states": m.distinct, "connection_model_states": cm.distinct,
            "connection_behaviours": n_beh, "connection_scenarios": n_scn, "connections_replayed": cj["connections"],
            "chain_request_records": nchain, "chain_requests_judged": judged_chain,
            "refuted_variant_taken_receiver_violating_states": refuted_states,
            "distinct_concrete_requests": distinct_req,
            "monitor_states": o.distinct,
            "tlc_coverage": dict({a: list(c) for a, c in cov.items()}, **{a: list(c) for a, c in ccov.items()}),
            "actions_never_taken": never,
            "violating_records": len(bad), "violation_classes": len(by_key),
            "drift": drift,
            "repo_tree": vlib.repo_tree_id(),
        },
        ["the harness instantiates an abstract host form with the concrete spelling it names (checked by reading; "
         "letter-case variants are produced by flipping ASCII case, 'other' names are near misses of the name)",
         "TLS connection info is constructed through the public fields of hyperdriver::info::TlsConnectionInfo, as the TLS "
         "acceptor's info layer would insert it (direct binding); the chain binding obtains it from a real rustls handshake "
         "(tokio-rustls client accepting any certificate, SNI = the scenario's name, or none for an IP address) through the "
         "crate's TLS acceptor, info channel and TlsConnectionInfoLayer",
         "chain binding: a request is 'arrived over TLS' because the harness made the connection a TLS connection; request "
         "futures are polled by hand, one settle round after every event",
         "syntactically valid host values only (the property's quantifier)",
         "TLC and the CommunityModules Json reader are trusted"],
        time.time() - t0, unlisted)
    vlib.log("[C20] %d abstract vectors x %d spellings = %d requests on the real layer + %d connections (%d behaviours x %d "
             "scenarios x %d) = %d chain requests (%d judged); %d violating records in %d classes; models %d + %d states; "
             "moved-receiver variant refuted by TLC on %d states" % (
                 len(vecs), k, ndirect, cj["connections"], n_beh, n_scn, reps, nchain, judged_chain, len(bad), len(by_key),
                 m.distinct, cm.distinct, refuted_states))
    return code


def replay(pid, path):
    d = vlib.outdir(pid)
    obj = json.load(open(path))
    if isinstance(obj.get("replay"), dict) and obj["replay"].get("kind") == "conninfo-trace":
        return __import__("x_conninfo").replay(pid, obj)
    if isinstance(obj.get("replay"), dict) and obj["replay"].get("kind") == "tlsstream-ops":
        import x_tlsstream
        return x_tlsstream.replay(pid, obj)
    recs = obj["replay"]["records"] if "replay" in obj else obj["records"]
    inp = os.path.join(d, "replay-in.ndjson")
    outp = os.path.join(d, "replay-out.ndjson")
    vlib.write_ndjson(inp, recs)
    vlib.run_harness("sni", ["rerun", inp, outp], timeout=300, env={"C20_CERTS": make_cert(pid)})
    new = vlib.read_ndjson(outp)
    o, bad, _, _ = _obs(pid, outp, timeout=300)
    for r in new:
        vlib.log("  replayed: %s -> %s" % (json.dumps({k: v for k, v in r["c"].items() if k != "chain_json"}, sort_keys=True),
                                           json.dumps(r["o"], sort_keys=True)))
    if bad:
        rp = os.path.join(d, "replay-violation.json")
        json.dump({"property": pid, "key": _key(bad[0]["key"]), "replay": {"records": [new[b["i"] - 1] for b in bad]}},
                  open(rp, "w"), indent=1)
        print("VIOLATION property=%s replay=%s" % (pid, rp), flush=True)
        vlib.log("  " + _describe(new[bad[0]["i"] - 1], bad[0]["key"]))
        return 1
    print("replay: property %s holds on the replayed input(s)" % pid)
    return 0
