#!/bin/bash
# Confirms a seeded change in the scratch worktree /tmp/confwt (HEAD of /repo):
#  1. with the patch: builds, and the repository's whole test suite passes;  2. the demonstration fails with the patch;
#  3. the demonstration passes without it.   usage: confirm_mutant.sh <dir with patch.diff and demo.rs> [demo features]
D=$(readlink -f "$1"); FEAT=${2:-mocks}
[ -d /tmp/confwt ] || git -C /repo worktree add -q --detach /tmp/confwt HEAD; cd /tmp/confwt && git checkout -q --detach $(git -C /repo rev-parse HEAD) && git reset -q --hard && git clean -qfd -e target
export CARGO_TARGET_DIR=/tmp/confwt/target
git apply "$D/patch.diff" || { echo "RESULT patch-does-not-apply"; exit 2; }
cargo build --offline --features verif-hooks > /tmp/confirm.log 2>&1 || { echo "RESULT does-not-build"; git reset -q --hard; exit 1; }
timeout 900 cargo test --workspace --no-fail-fast --offline > /tmp/confirm_suite.log 2>&1; suite=$?
nfail=$(grep -c "^test .* FAILED" /tmp/confirm_suite.log)
cp "$D/demo.rs" tests/zz_demo.rs
timeout 900 cargo test --offline --features "$FEAT" --test zz_demo > /tmp/confirm_demo_mut.log 2>&1; dm=$?
git checkout -q -- src
timeout 900 cargo test --offline --features "$FEAT" --test zz_demo > /tmp/confirm_demo_clean.log 2>&1; dc=$?
rm -f tests/zz_demo.rs; git reset -q --hard
echo "RESULT suite_exit=$suite suite_failed_tests=$nfail demo_with_patch_exit=$dm demo_clean_exit=$dc"
