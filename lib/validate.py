#!/usr/bin/env python3
"""Validate MANIFEST.json and evidence files against the schemas (uses the tooling venv)."""
import json, sys, glob
import jsonschema
ok = True
m = json.load(open('/verif/MANIFEST.json'))
jsonschema.validate(m, json.load(open('/root/.vp/MANIFEST.schema.json')))
es = json.load(open('/root/.vp/EVIDENCE.schema.json'))
for c in m['checks']:
    try:
        jsonschema.validate(json.load(open(c['evidence_file'])), es)
    except Exception as e:
        ok = False
        print('EVIDENCE', c['property_id'], str(e)[:300])
ids = {c['property_id'] for c in m['checks']} | {n['property_id'] for n in m.get('not_applicable', [])}
props = {json.loads(l)['id'] for l in open('/verif/properties.jsonl')}
if ids != props:
    ok = False
    print('property coverage mismatch', props ^ ids)
print('valid' if ok else 'INVALID')
sys.exit(0 if ok else 1)
