#!/bin/bash
# usage: lib/mutant_batch.sh <tag> <name:ID[,ID...]> ...   e.g.  lib/mutant_batch.sh a C05-m1:C05 C01-m1:C01,C02
ROOT=$(cd "$(dirname "$0")/.." && pwd)
TAG=$1; shift
for item in "$@"; do
  name=${item%%:*}; ids=${item#*:}
  echo "== $name"
  MUT_TAG=$TAG "$ROOT/lib/try_mutant.sh" "$ROOT/seeded_pending/$name/patch.diff" ${ids//,/ }
done
