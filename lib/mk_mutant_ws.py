#!/usr/bin/env python3
"""Creates a scratch worktree of /repo HEAD for a blind mutation sub-agent and writes its instructions into it.
usage: lib/mk_mutant_ws.py <round-tag> <N> <ID> [<ID> ...]   -> /tmp/<tag>-<ID>/INSTRUCTIONS.txt"""
import json, os, subprocess, sys
ROOT = os.path.dirname(os.path.dirname(os.path.abspath(__file__)))
tag, n, ids = sys.argv[1], int(sys.argv[2]), sys.argv[3:]
props = {json.loads(l)["id"]: json.loads(l) for l in open(os.path.join(ROOT, "properties.jsonl"))}
tmpl = open(os.path.join(ROOT, "lib", "mutant_prompt.txt")).read()
for i in ids:
    wt = f"/tmp/{tag}-{i}"
    if not os.path.isdir(wt):
        subprocess.check_call(["git", "-C", "/repo", "worktree", "add", "-q", "--detach", wt, "HEAD"])
    p = props[i]
    txt = tmpl.format(WT=wt, ID=i, TITLE=p["title"], STATEMENT=p["statement"], QUANT=p["quantifier"], N=n)
    os.makedirs(os.path.join(wt, "out"), exist_ok=True)
    open(os.path.join(wt, "INSTRUCTIONS.txt"), "w").write(txt)
    print(wt)
