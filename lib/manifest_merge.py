#!/usr/bin/env python3
"""Merge check entries (JSON list or object in a file, or ```json block of a notes file) into MANIFEST.json."""
import json, re, sys
m = json.load(open('/verif/MANIFEST.json'))
for path in sys.argv[1:]:
    txt = open(path).read()
    if path.endswith('.md'):
        blocks = re.findall(r"```json\n(.*?)```", txt, re.S)
        entries = []
        for b in blocks:
            try:
                v = json.loads(b)
            except Exception:
                continue
            entries += v if isinstance(v, list) else [v]
    else:
        v = json.loads(txt)
        entries = v if isinstance(v, list) else [v]
    for e in entries:
        if 'property_id' not in e or 'quick_cmd' not in e:
            continue
        m['checks'] = [c for c in m['checks'] if c['property_id'] != e['property_id']] + [e]
        m['not_applicable'] = [n for n in m.get('not_applicable', []) if n['property_id'] != e['property_id']]
        print('merged', e['property_id'])
# extension stages that are called by several checks: one sentence per property, appended once
STAGES = {
    "tlsstream": ("The check also runs the TlsStream.tla stage (explicit TLA+ spec of the lazily handshaking TLS streams, model-checked, "
                  "eight broken variants refuted, generated op schedules replayed on the real streams against a scripted rustls peer; "
                  "TLC evaluates this property's clauses on every recorded step)."),
    "duplex": ("The check also runs the Duplex.tla stage (explicit TLA+ spec of the in-process duplex transport: concurrent connects, "
               "cancellation, accept, byte pipes; model-checked, five broken variants refuted, behaviours replayed step by step on the real "
               "types, random walks validated against the spec by TLC, this property's clauses decided by a TLC monitor)."),
    "tcpcall": ("The check also runs the TcpCall.tla stage (explicit TLA+ spec of one whole TcpTransport call: URI, resolver, sort, eyeballs "
                "with per-attempt connect_timeout, error mapping; model-checked, four broken variants refuted, every realizable vector run on "
                "the real transport on loopback; TLC evaluates this property's lifted clauses on every record)."),
    "connector": ("The check also runs the Connector.tla stage (explicit TLA+ spec of the four connector stages and the pool-less "
                  "ConnectorService: model-checked incl. liveness, seven broken variants refuted, behaviours replayed step by step on the real "
                  "ConnectorService / ConnectorLayer / Connector future with gated doubles, random walks; TLC evaluates this property's clauses)."),
    "body": ("The check also runs the Body.tla stage (explicit TLA+ spec of the body variants and adapter layers against a reference "
             "frame sequence: frames, end-of-stream, size hints, Pending, clone; eight broken variants refuted; generated op sequences on the "
             "real types incl. hyper Incoming, and end-to-end framing through real Client <-> Server for HTTP/1.1 and HTTP/2; TLC decides)."),
    "conninfo": ("The check also runs the ConnInfo.tla stage (explicit TLA+ spec of accept -> make-service -> serve and of the per-connection "
                 "information each request carries; model-checked incl. liveness, seven broken variants refuted, interleavings replayed step by "
                 "step on the real Server built through the public builder, random walks incl. real TCP/Unix listeners; TLC evaluates this "
                 "property's clauses)."),
    "upgrade": ("The check also runs the Upgrade.tla stage (explicit TLA+ spec of HTTP/1 upgrades and CONNECT tunnels end to end: pool view, "
                "token-level byte path with sniffer prefix and early bytes, shutdown; model-checked, eleven broken variants refuted, generated "
                "and random scenarios run on the real Client against the real Server over duplex with a fragmenting relay; TLC evaluates this "
                "property's clauses)."),
    "sniffbytes": ("The check also runs the replay domain of Sniff.tla on the real auto-detecting connection and reports the falsified `bytes` "
                   "clause (what the handler reads behind the sniffer + rewind assembly is exactly what the client wrote)."),
}
USES = {"C07": ["tlsstream", "conninfo"], "C09": ["tlsstream", "duplex", "conninfo"], "C12": ["tlsstream"], "C20": ["tlsstream", "conninfo"],
        "C18": ["sniffbytes", "duplex", "tlsstream", "upgrade"], "C02": ["upgrade"], "C10": ["tcpcall"], "C11": ["tcpcall"], "C17": ["tcpcall", "body", "connector"],
        "C01": ["body", "conninfo", "upgrade"], "C03": ["connector"], "C13": ["connector", "upgrade"], "C19": ["connector"]}
for c in m['checks']:
    for st in USES.get(c['property_id'], []):
        if STAGES[st] not in c['level_claimed']['text']:
            c['level_claimed']['text'] = c['level_claimed']['text'].rstrip() + " " + STAGES[st]
m['checks'].sort(key=lambda c: c['property_id'])
json.dump(m, open('/verif/MANIFEST.json', 'w'), indent=1)
