#!/usr/bin/env python3
"""Merge check entries (JSON list or object in a file, or ```json block of a notes file) into MANIFEST.json."""
import json, re, sys
m = json.load(open('/verif/MANIFEST.json'))
for path in sys.argv[1:]:
    txt = open(path).read()
    if path.endswith('.md'):
        blocks = re.findall(r"```json\n(.*?)```", txt, re.S)
        entries = []
        for b in blocks:
            try:
                v = json.loads(b)
            except Exception:
                continue
            entries += v if isinstance(v, list) else [v]
    else:
        v = json.loads(txt)
        entries = v if isinstance(v, list) else [v]
    for e in entries:
        if 'property_id' not in e or 'quick_cmd' not in e:
            continue
        m['checks'] = [c for c in m['checks'] if c['property_id'] != e['property_id']] + [e]
        m['not_applicable'] = [n for n in m.get('not_applicable', []) if n['property_id'] != e['property_id']]
        print('merged', e['property_id'])
m['checks'].sort(key=lambda c: c['property_id'])
json.dump(m, open('/verif/MANIFEST.json', 'w'), indent=1)
