"""Self-test of the pool monitors (vacuity / binding guard): synthetic corruptions are injected into copies of REAL
recorded runs; PoolObs.tla must flag exactly the expected clause for each, PoolTrace.tla must reject a trace with one
corrupted field.  A monitor that silently stopped evaluating (schema drift, renamed field) fails this test, and the
check ends as a tool error instead of passing vacuously."""
import copy
import json
import os

import vlib


def runs_of(trace):
    runs, cur = [], None
    for r in trace:
        if r["e"] == "Reset":
            cur = [r]
            runs.append(cur)
        elif cur is not None:
            cur.append(r)
    return runs


def inject(runs):
    """Returns [(expected_tag, run_records)] built from the first suitable real run for each injection."""
    out = []

    def first(pred):
        for run in runs:
            for i, r in enumerate(run):
                if i > 0 and pred(run, i):
                    return copy.deepcopy(run), i
        return None, None

    def h1_handoff(run, i):
        r = run[i]
        return r["e"] == "Poll" and r["res"] == "Handoff" and not r["obs"]["conn"][r["c"] - 1]["h2"] and len(run[i - 1]["obs"]["conn"]) >= r["c"]

    # C02: the connection was busy just before it was handed out
    run, i = first(h1_handoff)
    if run:
        c = run[i]["c"]
        run[i - 1]["obs"]["conn"][c - 1]["busy"] = True
        run[i - 1]["obs"]["conn"][c - 1]["st"] = "open"
        out.append(("C02:handoff-while-busy", run[: i + 1] + [dict(run[i], e="Drain", res="", r=0, c=0)]))
    # C06: the connection had been dialled for another origin
    run, i = first(h1_handoff)
    if run:
        run[0]["uris"] = run[0]["uris"] + [dict(run[0]["uris"][0], uri="http://other.test", host="other.test")]
        for rec in run[1:]:
            for k in ("idle", "wq"):
                rec["obs"][k] = rec["obs"][k] + [[]]
            rec["obs"]["cing"] = rec["obs"]["cing"] + [False]
        run[i]["obs"]["conn"][run[i]["c"] - 1]["o"] = 2
        out.append(("C06:cross-origin", run[: i + 1]))
    # C15: one idle entry too many
    run, i = first(lambda run, i: run[i]["e"] == "WhenReady" and len(run[i]["obs"]["idle"][0]) >= 1)
    if run:
        run[i]["obs"]["idle"][0] = run[i]["obs"]["idle"][0] * (run[0]["cfg"]["maxIdle"] + 1)
        out.append(("C15:too-many-idle", run[: i + 1]))
    # C03: somebody is still in checkout at the drain
    run, i = first(lambda run, i: run[i]["e"] == "Drain" and len(run[i]["obs"]["req"]) >= 1)
    if run:
        run[i]["obs"]["req"][0]["st"] = "checkout"
        out.append(("C03:stranded", run[: i + 1]))
    # C03: a poll that was not woken found something
    run, i = first(lambda run, i: run[i]["e"] == "Poll" and run[i]["res"] == "Handoff" and not run[i]["first"])
    if run:
        run[i]["woken"] = False
        out.append(("C03:lost-wakeup", run[: i + 1]))
    # C05: the pooled connection had been closed before the request was issued
    def pooled_handoff(run, i):
        r = run[i]
        return h1_handoff(run, i) and r["obs"]["conn"][r["c"] - 1]["by"] != r["r"]
    run, i = first(pooled_handoff)
    if run:
        r, c = run[i]["r"], run[i]["c"]
        j = next(k for k in range(1, i) if run[k]["e"] == "Issue" and run[k]["r"] == r)
        close = dict(copy.deepcopy(run[j - 1]), e="PeerClose", c=c, r=0, res="", d=0)
        out.append(("C05:closed-before-issue", run[:j] + [close] + run[j: i + 1]))
    # C04: a released, ready connection vanished although there was room
    def kept(run, i):
        r = run[i]
        if r["e"] != "WhenReady":
            return False
        pre, post = run[i - 1]["obs"], r["obs"]
        c = r["c"]
        return (len(pre["conn"]) >= c and pre["conn"][c - 1]["st"] == "open" and not pre["conn"][c - 1]["busy"] and not pre["conn"][c - 1]["h2"]
                and not pre["conn"][c - 1]["up"] and c in post["idle"][0] and run[0]["cfg"]["idleTimeout"] != 2)
    run, i = first(kept)
    if run:
        c = run[i]["c"]
        run[i]["obs"]["idle"][0] = [x for x in run[i]["obs"]["idle"][0] if x != c]
        run[i]["obs"]["conn"][c - 1]["live"] = 0
        out.append(("C04:released-connection-not-kept", run[: i + 1]))
    # C14: a request waiting for its own dial stays pending although a usable idle connection is pooled
    def pending_own(run, i):
        r = run[i]
        if not (r["e"] == "Poll" and r["res"] == "PollPending" and run[0]["cfg"]["idleTimeout"] != 2):
            return False
        dialed = any(x["e"] == "Poll" and x["r"] == r["r"] and x["res"] == "DialStart" for x in run[1:i])
        pre = run[i - 1]["obs"]
        usable = [k + 1 for k, cc in enumerate(pre["conn"]) if cc["st"] == "open" and not cc["busy"] and not cc["up"]]
        return dialed and bool(usable)
    run, i = first(pending_own)
    if run:
        pre = run[i - 1]["obs"]
        c = next(k + 1 for k, cc in enumerate(pre["conn"]) if cc["st"] == "open" and not cc["busy"] and not cc["up"])
        pre["idle"][0] = pre["idle"][0] + [c]
        out.append(("C14:pending-while-usable-idle", run[: i + 1]))
    return out


def run(pid, real_trace_paths):
    """Raises ToolError when a monitor misses an injected corruption."""
    trace = []
    for p in real_trace_paths:
        trace += vlib.read_ndjson(p)
    runs = runs_of(trace)
    inj = inject(runs)
    if len(inj) < 6:
        raise vlib.ToolError(f"monitor self-test: only {len(inj)} injections could be built from the recorded runs")
    d = vlib.outdir(pid)
    path = os.path.join(d, "selftest.ndjson")
    recs = []
    for n, (_, run_) in enumerate(inj):
        run_ = copy.deepcopy(run_)
        run_[0]["run"] = n + 1
        recs += run_
    vlib.write_ndjson(path, recs)
    r = vlib.tlc_trace("PoolObs.tla", "PoolObs.cfg", pid, path, timeout=600)
    v = r.printed("VIOL")
    if not r.finished or len(v) != 1:
        raise vlib.ToolError("monitor self-test: PoolObs did not consume the synthetic trace")
    got = {}
    for x in v[0]:
        got.setdefault(x["run"], set()).add(x["tag"])
    missed = [(n + 1, tag) for n, (tag, _) in enumerate(inj) if tag not in got.get(n + 1, set())]
    if missed:
        raise vlib.ToolError(f"monitor self-test: injected corruptions not flagged: {missed} (flagged: { {k: sorted(s) for k, s in got.items()} })")
    # binding: one corrupted field in an otherwise real trace must be rejected by PoolTrace.tla
    real = copy.deepcopy(runs[0])
    k = next((i for i, x in enumerate(real) if x["e"] == "Poll"), None)
    rejected = None
    if k is not None:
        real[k]["obs"]["cing"] = [not b for b in real[k]["obs"]["cing"]]
        p2 = os.path.join(d, "selftest-trace.ndjson")
        vlib.write_ndjson(p2, real)
        r2 = vlib.tlc_trace("PoolTrace.tla", "PoolTrace.cfg", pid, p2, timeout=600)
        rejected = any(line.startswith('<<"REJECT", ') for line in r2.out.splitlines())
        if not rejected:
            raise vlib.ToolError("binding self-test: PoolTrace accepted a trace with a corrupted `connecting` flag")
    return {"injections": [t for t, _ in inj], "all_flagged": True, "corrupted_trace_rejected_by_PoolTrace": rejected}
