"""Shared machinery for the hyperdriver checks: harness build, TLC runs, trace validation,
evidence files, known findings and the VIOLATION / KNOWN-FINDING protocol.

Exit codes of a check:  0 property held on everything explored (known findings are printed),
                        1 a violation that known_findings.json does not list (VIOLATION line),
                        2 tool failure / timeout (never a verdict).
"""
import hashlib
import json
import os
import re
import shutil
import subprocess
import sys
import time

ROOT = os.path.dirname(os.path.dirname(os.path.abspath(__file__)))
SPEC = os.path.join(ROOT, "spec")
# Development-only overrides (mutant trials against a scratch worktree): never set by the registered commands.
HARNESS = os.environ.get("VERIF_HARNESS_DIR") or os.path.join(ROOT, "harness")
OUT = os.environ.get("VERIF_OUT_DIR") or os.path.join(ROOT, "out")
EVID = os.environ.get("VERIF_EVID_DIR") or os.path.join(ROOT, "evidence")
JAR = "/opt/veriftools/tla/tla2tools.jar:/opt/veriftools/tla/CommunityModules-deps.jar"


class ToolError(Exception):
    pass


def log(*a):
    print(*a, file=sys.stderr, flush=True)


def seed_from_env():
    try:
        return int(os.environ.get("VERIF_SEED", "1"))
    except ValueError:
        return 1


def outdir(pid):
    d = os.path.join(OUT, pid)
    os.makedirs(d, exist_ok=True)
    return d


# ------------------------------------------------------------------------------------------------
# harness
_built = set()


def build_harness(name):
    """cargo build of one harness binary: path dependency on /repo, so the current working tree of
    /repo (with the verif-hooks feature on) is what gets compiled. VERIF_TARGET_DIR overrides the
    target directory (development only)."""
    if name in _built:
        return
    t = time.time()
    env = dict(os.environ, CARGO_NET_OFFLINE="true")
    if os.environ.get("VERIF_TARGET_DIR"):
        env["CARGO_TARGET_DIR"] = os.environ["VERIF_TARGET_DIR"]
    p = subprocess.run(["cargo", "build", "--release", "--offline", "--bin", name], cwd=HARNESS, env=env,
                       stdout=subprocess.PIPE, stderr=subprocess.STDOUT, text=True)
    if p.returncode != 0:
        log(p.stdout[-6000:])
        raise ToolError("harness build failed (does /repo still compile with --features verif-hooks?)")
    log(f"[build] harness bin {name} built in {time.time()-t:.1f}s")
    _built.add(name)


def hbin(name):
    return os.path.join(os.environ.get("VERIF_TARGET_DIR") or os.path.join(HARNESS, "target"), "release", name)


def run_harness(name, args, timeout=3600, stdin=None, env=None):
    """Runs a harness binary. A non-zero exit of the harness is a tool error: the binaries report
    what they saw (panics of the code under test included) as data."""
    build_harness(name)
    e = dict(os.environ)
    if env:
        e.update(env)
    t = time.time()
    try:
        p = subprocess.run([hbin(name)] + [str(a) for a in args], stdout=subprocess.PIPE, stderr=subprocess.PIPE,
                           text=True, timeout=timeout, input=stdin, env=e)
    except subprocess.TimeoutExpired:
        raise ToolError(f"harness {name} timed out after {timeout}s")
    if p.returncode != 0:
        log(p.stderr[-4000:])
        raise ToolError(f"harness {name} {' '.join(map(str, args))} exited {p.returncode}")
    log(f"[harness] {name} {' '.join(map(str, args))[:160]}: {time.time()-t:.1f}s")
    return p.stdout


# ------------------------------------------------------------------------------------------------
# TLC
_TLC_STATES = re.compile(r"(\d+) states generated, (\d+) distinct states found")
_TLC_DEPTH = re.compile(r"The depth of the complete state graph search is (\d+)")


class TlcResult:
    def __init__(self, out, rc, wall):
        self.out = out
        self.rc = rc
        self.wall = wall
        m = _TLC_STATES.findall(out)
        self.generated = int(m[-1][0]) if m else 0
        self.distinct = int(m[-1][1]) if m else 0
        d = _TLC_DEPTH.findall(out)
        self.depth = int(d[-1]) if d else 0
        self.violated = None
        mv = re.search(r"Invariant (\S+) is violated", out)
        if mv:
            self.violated = mv.group(1)
        elif "Temporal properties were violated" in out:
            self.violated = "<temporal>"
        elif re.search(r"Action property (\S+) is violated", out):
            self.violated = re.search(r"Action property (\S+) is violated", out).group(1)
        self.finished = "Model checking completed. No error has been found." in out
        self.error = (not self.finished) and self.violated is None and "-simulate" not in out

    def coverage(self):
        """Per-action counts from `-coverage`: {action: (distinct, taken)}."""
        cov = {}
        for m in re.finditer(r"<(\w+) line \d+, col \d+ to line \d+, col \d+ of module (\w+)>: (\d+):(\d+)", self.out):
            cov[m.group(1)] = (int(m.group(3)), int(m.group(4)))
        return cov

    def printed(self, tag):
        """Lines TLC printed through PrintT(<<tag, json-string>>), decoded."""
        res = []
        pre = '<<"%s", ' % tag
        for line in self.out.splitlines():
            if line.startswith(pre) and line.endswith(">>"):
                inner = line[len(pre):-2]
                try:
                    res.append(json.loads(json.loads(inner)))
                except Exception:
                    try:
                        res.append(json.loads(inner))
                    except Exception:
                        pass
        return res


def tlc(module, cfg, pid, workers=8, timeout=1800, coverage=False, simulate=None, depth=None, seed=None,
        java_opts=None, env=None, deadlock=False, xmx="12g", cwd=None, extra=None):
    """Run TLC on spec/<module>.tla with spec/<cfg>. Returns TlcResult; raises ToolError on
    tool failure or timeout."""
    cwd = cwd or SPEC
    meta = os.path.join(outdir(pid), "tlc-" + re.sub(r"\W", "_", cfg) + "-" + str(os.getpid()))
    shutil.rmtree(meta, ignore_errors=True)
    cmd = ["java", "-XX:+UseParallelGC", "-Xmx" + xmx, "-Xss1g"]
    if java_opts:
        cmd += java_opts
    cmd += ["-cp", JAR, "tlc2.TLC", "-workers", str(workers), "-metadir", meta, "-cleanup", "-noGenerateSpecTE",
            "-config", cfg]
    if coverage:
        cmd += ["-coverage", "1"]
    if not deadlock:
        cmd += ["-deadlock"]
    if simulate is not None:
        cmd += ["-simulate", f"num={simulate}"]
        if depth:
            cmd += ["-depth", str(depth)]
    if seed is not None:
        cmd += ["-seed", str(seed)]
    if extra:
        cmd += extra
    cmd += [module]
    e = dict(os.environ)
    e.pop("JAVA_TOOL_OPTIONS", None)
    if env:
        e.update(env)
    t = time.time()
    try:
        p = subprocess.run(cmd, cwd=cwd, stdout=subprocess.PIPE, stderr=subprocess.STDOUT, text=True,
                           timeout=timeout, env=e)
    except subprocess.TimeoutExpired:
        shutil.rmtree(meta, ignore_errors=True)
        raise ToolError(f"TLC {module}/{cfg} timed out after {timeout}s")
    shutil.rmtree(meta, ignore_errors=True)
    r = TlcResult(p.stdout, p.returncode, time.time() - t)
    log(f"[tlc] {module} {cfg}: rc={p.returncode} generated={r.generated} distinct={r.distinct} depth={r.depth} "
        f"violated={r.violated} {r.wall:.1f}s")
    # rc 0 ok; 12 = safety violation; 13 = liveness violation; everything else is a tool problem
    if p.returncode not in (0, 12, 13) and r.violated is None:
        log(p.stdout[-5000:])
        raise ToolError(f"TLC {module}/{cfg} failed rc={p.returncode}")
    return r


def tlc_trace(module, cfg, pid, trace_path, timeout=1800, xmx="4g", extra_env=None):
    """Trace validation / property monitor run: single worker, depth-first queue, TRACE in env."""
    env = {"TRACE": os.path.abspath(trace_path)}
    if extra_env:
        env.update(extra_env)
    return tlc(module, cfg, pid, workers=1, timeout=timeout, xmx=xmx, env=env,
               java_opts=["-Dtlc2.tool.queue.IStateQueue=StateDeque"])


# ------------------------------------------------------------------------------------------------
# findings
def load_known():
    p = os.path.join(ROOT, "known_findings.json")
    if not os.path.exists(p):
        return {"findings": [], "fixed": []}
    return json.load(open(p))


class Verdict:
    """Collects violations of one property during a check run and applies the known-findings file."""

    def __init__(self, pid):
        self.pid = pid
        self.violations = []   # (key, description, replay_path)
        self.known_hit = {}
        import glob
        for old in glob.glob(os.path.join(outdir(pid), "violation-*.json")):
            os.remove(old)

    def violation(self, key, desc, replay_obj):
        """key: stable identifier of the failing input/history class (used to match known findings)."""
        d = outdir(self.pid)
        n = len(self.violations) + 1
        path = os.path.join(d, f"violation-{n}.json")
        with open(path, "w") as f:
            json.dump({"property": self.pid, "key": key, "description": desc, "replay": replay_obj}, f, indent=1)
        self.violations.append((key, desc, path))

    def finish(self):
        """Prints KNOWN-FINDING / VIOLATION lines; returns (exit_code, n_unlisted)."""
        known = [k for k in load_known().get("findings", []) if k.get("property") == self.pid]
        unlisted = []
        printed = set()
        for key, desc, path in self.violations:
            hit = None
            for k in known:
                if re.fullmatch(k["match"], key):
                    hit = k
                    break
            if hit is not None:
                if hit["id"] not in printed:
                    print(f"KNOWN-FINDING: property={self.pid} {hit['id']}: {hit['what']}", flush=True)
                    printed.add(hit["id"])
            else:
                unlisted.append((key, desc, path))
        for key, desc, path in unlisted[:10]:
            print(f"VIOLATION property={self.pid} replay={path}", flush=True)
            log(f"  {key}: {desc}")
        return (1 if unlisted else 0), len(unlisted)


# ------------------------------------------------------------------------------------------------
# evidence
def write_evidence(pid, tier, seed, level, coverage, assumptions, wall_s, violations):
    os.makedirs(EVID, exist_ok=True)
    ev = {"property_id": pid, "tier": tier, "seed": int(seed), "level": level, "coverage": coverage,
          "assumptions": assumptions, "wall_s": round(wall_s, 2), "violations": int(violations)}
    tmp = os.path.join(EVID, pid + ".json.tmp")
    with open(tmp, "w") as f:
        json.dump(ev, f, indent=1)
    os.replace(tmp, os.path.join(EVID, pid + ".json"))


def repo_tree_id():
    """Identifier of /repo's current working tree (HEAD + diff), recorded in evidence."""
    try:
        head = subprocess.run(["git", "-C", "/repo", "rev-parse", "HEAD"], stdout=subprocess.PIPE, text=True).stdout.strip()
        diff = subprocess.run(["git", "-C", "/repo", "diff", "HEAD", "--", "src", "Cargo.toml"], stdout=subprocess.PIPE).stdout
        return head[:12] + ("+" + hashlib.sha1(diff).hexdigest()[:8] if diff else "")
    except Exception:
        return "unknown"


def read_ndjson(path):
    with open(path) as f:
        return [json.loads(l) for l in f if l.strip()]


def write_ndjson(path, recs):
    with open(path, "w") as f:
        for r in recs:
            f.write(json.dumps(r, separators=(",", ":")) + "\n")
