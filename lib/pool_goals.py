"""Goal-directed behaviours of Pool.tla: TLC is asked for ~Gk (spec/MC_PoolGoals.tla); the counterexample
(-dumpTrace json) is the shortest behaviour reaching the corner Gk.  Returns replayable schedules."""
import concurrent.futures
import json
import os
import subprocess

import vlib

GOALS = ["A%02d" % i for i in range(1, 11)] + ["G%02d" % i for i in range(9, 38)]
# slices: (name, constants overriding the base); every goal is tried in every applicable slice
BASE = dict(NReq=3, NOrig=1, MaxDial=3, MaxTick=0, AsBuilt="{}", MaxIdles="{1}", IdleTimeouts="{0}",
            Protos="{TRUE, FALSE}", Faults="AllFaults", Spurious="FALSE", AllowDrop="FALSE")
SLICES = {
    "cap": dict(Caps="{TRUE}"),
    "nocap": dict(Caps="{FALSE}"),
}
ONLY = {  # goals that exist in one slice only (background continuation needs continue_after_preemption, ...)
    "A06": ["cap"], "A08": ["cap"], "A07": ["nocap"], "G16": ["cap"], "G18": ["cap"], "G19": ["cap"], "G20": ["cap"], "G17": ["nocap"],
}
SPECIAL = {
    "G27": dict(MaxTick=1, IdleTimeouts="{2}", Protos="{FALSE}", MaxIdles="{2}", Faults="NoFaults"),
    "G28": dict(MaxTick=1, IdleTimeouts="{2}", Protos="{FALSE}", MaxIdles="{2}", Faults="NoFaults"),
    "G29": dict(MaxTick=1, IdleTimeouts="{2}", Protos="{FALSE}", MaxIdles="{2}", Faults="NoFaults"),
    "G32": dict(MaxTick=1, IdleTimeouts="{2}", Protos="{TRUE}", MaxIdles="{1}", Faults="NoFaults", MaxDial=2),
    "G33": dict(MaxTick=1, IdleTimeouts="{2}", Protos="{TRUE}", MaxIdles="{1}", Faults="NoFaults", MaxDial=2),
    "G30": dict(AllowDrop="TRUE", MaxDial=2),
    "G34": dict(AllowDrop="TRUE", MaxDial=2, Protos="{TRUE}", Faults="NoFaults"),
    "G35": dict(AllowDrop="TRUE", MaxDial=2),
    "G36": dict(AllowDrop="TRUE", MaxDial=2, Protos="{FALSE}"),
    "G37": dict(AllowDrop="TRUE", MaxDial=2),
    "G31": dict(AllowDrop="TRUE", MaxDial=2, Protos="{FALSE}"),
    "A02": dict(Protos="{FALSE}", Faults="NoFaults"),
    "A01": dict(Protos="{FALSE}", Faults="CloseOnly"),
    "A03": dict(Protos="{FALSE}", Faults="NoFaults"),
    "G12": dict(Protos="{FALSE}", Faults="NoFaults"),
    "G15": dict(Protos="{FALSE}", Faults="NoFaults"),
    "G18": dict(Protos="{FALSE}", Faults="NoFaults"),
    "G23": dict(Protos="{FALSE}", Faults="CloseOnly"),
}
GOALS_DIR = os.path.join(vlib.SPEC, "goals")


def spec_hash():
    import hashlib
    h = hashlib.sha1()
    for f in ("Pool.tla", "MC_Pool.tla", "MC_PoolGoals.tla"):
        h.update(open(os.path.join(vlib.SPEC, f), "rb").read())
    h.update(open(os.path.abspath(__file__), "rb").read())
    return h.hexdigest()


def load_or_generate(pid):
    """The goal schedules are derived from the spec; they are kept in spec/goals/ together with the hash of the
    modules they were derived from and regenerated (about 2 min of TLC) whenever that hash no longer matches."""
    f, hf = os.path.join(GOALS_DIR, "pool.ndjson"), os.path.join(GOALS_DIR, "pool.sha1")
    if os.path.exists(f) and os.path.exists(hf) and open(hf).read().strip() == spec_hash():
        return vlib.read_ndjson(f), {"reused": True, "spec_sha1": spec_hash()}
    scheds, report = generate(pid)
    os.makedirs(GOALS_DIR, exist_ok=True)
    vlib.write_ndjson(f, scheds)
    open(hf, "w").write(spec_hash() + "\n")
    json.dump(report, open(os.path.join(GOALS_DIR, "pool.report.json"), "w"), indent=1)
    return scheds, {"reused": False, "spec_sha1": spec_hash(), "report": report}


def _one(pid, goal, sname, consts, outdir):
    cfg = os.path.join(vlib.SPEC, f"_goal_{pid}_{goal}_{sname}.cfg")
    lines = ["CONSTANTS"]
    for k, v in consts.items():
        lines.append(f"  {k} <- {v}" if k == "Faults" else f"  {k} = {v}")
    lines += ["INIT Init", "NEXT Next", "VIEW View", (f"PROPERTY Not{goal}" if goal.startswith("A") else f"INVARIANT Not{goal}"), "CHECK_DEADLOCK FALSE"]
    open(cfg, "w").write("\n".join(lines) + "\n")
    dump = os.path.join(outdir, f"goal-{goal}-{sname}.json")
    if os.path.exists(dump):
        os.remove(dump)
    meta = os.path.join(outdir, f"meta-{goal}-{sname}")
    cmd = ["java", "-XX:+UseParallelGC", "-Xmx3g", "-cp", vlib.JAR, "tlc2.TLC", "-workers", "2", "-metadir", meta, "-cleanup",
           "-noGenerateSpecTE", "-deadlock", "-config", os.path.basename(cfg), "-dumpTrace", "json", dump, "MC_PoolGoals.tla"]
    try:
        p = subprocess.run(cmd, cwd=vlib.SPEC, stdout=subprocess.PIPE, stderr=subprocess.STDOUT, text=True, timeout=150)
        out = p.stdout
    except subprocess.TimeoutExpired:
        out = "TIMEOUT"
    finally:
        os.remove(cfg)
        subprocess.run(["rm", "-rf", meta])
    if (f"Invariant Not{goal} is violated" not in out and f"Action property Not{goal} is violated" not in out) or not os.path.exists(dump):
        return goal, sname, None, ("unreachable-in-slice" if "No error has been found" in out else "tool:" + out[-300:])
    tr = json.load(open(dump))["counterexample"]["action"]
    steps = []
    cfgrec = None
    for (_, _, nxt) in tr:
        st = nxt[1]
        cfgrec = st["cfg"]
        steps.append({"ev": st["ev"], "obs": {}})
    beh = {"cfg": {"cap": cfgrec["cap"], "maxIdle": cfgrec["maxIdle"], "idleTimeout": cfgrec["it"], "noPool": cfgrec.get("nopool", False)}, "steps": steps, "goal": f"{goal}/{sname}"}
    return goal, sname, beh, "ok"


def generate(pid, goals=None):
    """Returns (schedules, report): one schedule per (goal, slice) that TLC could reach."""
    outdir = vlib.outdir(pid)
    jobs = []
    for g in (goals or GOALS):
        for sname, sc in SLICES.items():
            if sname not in ONLY.get(g, list(SLICES)):
                continue
            consts = dict(BASE)
            consts.update(sc)
            consts.update(SPECIAL.get(g, {}))
            jobs.append((g, sname, consts))
    scheds, report = [], {}
    with concurrent.futures.ThreadPoolExecutor(max_workers=6) as ex:
        for g, sname, beh, status in ex.map(lambda j: _one(pid, j[0], j[1], j[2], outdir), jobs):
            report[f"{g}/{sname}"] = status if beh is None else len(beh["steps"])
            if beh is not None:
                scheds.append(beh)
    return scheds, report
