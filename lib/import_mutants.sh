#!/bin/bash
# Imports the output of a blind mutation sub-agent: /tmp/<tag>-<ID>/out/{mK.diff,mK_demo.rs,mK.json} -> seeded_pending/<ID>-<suffix>K/
# usage: lib/import_mutants.sh <tag> <suffix> <ID> [<ID> ...]     e.g. lib/import_mutants.sh m3 p C19 C10
ROOT=$(cd "$(dirname "$0")/.." && pwd); TAG=$1; SUF=$2; shift 2
for ID in "$@"; do
  for j in /tmp/$TAG-$ID/out/m*.json; do
    [ -f "$j" ] || continue
    k=$(basename "$j" .json); k=${k#m}
    d=$ROOT/seeded_pending/$ID-$SUF$k; mkdir -p "$d"
    cp /tmp/$TAG-$ID/out/m$k.diff "$d/patch.diff"; cp /tmp/$TAG-$ID/out/m${k}_demo.rs "$d/demo.rs"; cp "$j" "$d/agent.json"
    echo "$ID-$SUF$k"
  done
done
