#!/usr/bin/env python3
"""Builds /verif/seeded/<id>/ (patch.diff, demo.rs, meta.json) and seeded/README.md from seeded_pending/,
the confirmation logs (lib/confirm_mutant.sh) and the detection logs (lib/mutant_batch.sh).
usage: lib/finalize_seeded.py <confirm logs...> -- <detection logs...>"""
import json, os, re, shutil, sys
ROOT = os.path.dirname(os.path.dirname(os.path.abspath(__file__)))
args = sys.argv[1:]
i = args.index("--")
conf_logs, det_logs = args[:i], args[i + 1:]
confirm = {}
for f in conf_logs:
    for line in open(f):
        m = re.match(r"(\S+): RESULT (.*)", line)
        if m:
            confirm[m.group(1)] = dict(kv.split("=") for kv in m.group(2).split())
detect = {}
for f in det_logs:
    cur = None
    for line in open(f):
        m = re.match(r"== (\S+)", line)
        if m:
            cur = m.group(1)
            detect.setdefault(cur, {})
            continue
        m = re.match(r"(C\d+) exit=(\d+) violations=(\d+) keys: (.*)", line)
        if m and cur:
            keys = sorted({re.sub(r"^\d+ ", "", k.strip()).split(": clause")[0] for k in m.group(4).split(";") if k.strip()})
            detect[cur][m.group(1)] = {"exit": int(m.group(2)), "violation_lines": int(m.group(3)), "keys": keys}
rows = []
for name in sorted(os.listdir(os.path.join(ROOT, "seeded_pending"))):
    src = os.path.join(ROOT, "seeded_pending", name)
    c = confirm.get(name)
    ok = c and c.get("suite_exit") == "0" and c.get("demo_with_patch_exit") not in (None, "0") and c.get("demo_clean_exit") == "0"
    if not ok:
        print("not confirmed, skipped:", name, c)
        continue
    dst = os.path.join(ROOT, "seeded", name)
    os.makedirs(dst, exist_ok=True)
    shutil.copy(os.path.join(src, "patch.diff"), dst)
    shutil.copy(os.path.join(src, "demo.rs"), dst)
    a = json.load(open(os.path.join(src, "agent.json")))
    det = detect.get(name, {})
    caught = sorted(k for k, v in det.items() if v["exit"] == 1)
    meta = {"property": a.get("property", name.split("-")[0]), "summary": a.get("summary"), "why_it_breaks": a.get("why_it_breaks"),
            "needs_to_manifest": a.get("needs_to_manifest"), "origin": "blind sub-agent (saw only the property text and a scratch worktree)",
            "demo_cmd": "cp demo.rs <worktree>/tests/zz_demo.rs && cargo test --offline --features mocks --test zz_demo   (see lib/confirm_mutant.sh)",
            "confirmed": {"what_was_run": "lib/confirm_mutant.sh in a scratch worktree of /repo HEAD: with the patch cargo build --features verif-hooks, "
                                          "cargo test --workspace --no-fail-fast --offline (all pass), the demonstration (fails); without the patch the demonstration (passes)",
                          "result": c},
            "detection": det, "caught_by": caught}
    if os.path.exists(os.path.join(src, "note.txt")):
        meta["note"] = open(os.path.join(src, "note.txt")).read().strip()
    json.dump(meta, open(os.path.join(dst, "meta.json"), "w"), indent=1)
    rows.append((name, meta))
with open(os.path.join(ROOT, "seeded", "README.md"), "w") as f:
    f.write("# Seeded changes\n\nEach directory holds `patch.diff` (apply with `git -C /repo apply`), `demo.rs` (a test that fails with the change and passes "
            "without it) and `meta.json`. All compile and pass the repository's 73 tests. `caught by` = quick-tier checks that exit 1 with a VIOLATION line "
            "when the change is applied (run through `lib/try_mutant.sh`, i.e. the same check code against a scratch worktree).\n\n"
            "| id | property | change | needs | caught by (keys) |\n|---|---|---|---|---|\n")
    for name, m in rows:
        keys = "; ".join(f"{k}: {', '.join(v['keys'][:3])}" for k, v in m["detection"].items() if v["exit"] == 1) or "**not caught** (see DESIGN.md 11.5)"
        f.write(f"| {name} | {m['property']} | {(m['summary'] or '')[:160]} | {(m['needs_to_manifest'] or '')[:160]} | {keys} |\n")
print("finalized", len(rows))
