#!/usr/bin/env python3
"""Soundness sweep for the pool monitors on the UNCHANGED tree: many seeds of random walks (all profiles),
every record decided by PoolObs.tla, every small-origin walk validated against Pool.tla (PoolTrace.tla).
Any flagged clause or rejected run on the unchanged tree is a false alarm (or a defect) to investigate.
usage: lib/sweep_pool.py <first_seed> <last_seed>"""
import json, os, sys
ROOT = os.path.dirname(os.path.dirname(os.path.abspath(__file__)))
sys.path.insert(0, os.path.join(ROOT, "lib")); sys.path.insert(0, os.path.join(ROOT, "checks"))
import vlib, c_pool
a, b = int(sys.argv[1]), int(sys.argv[2])
d = vlib.outdir("sweep")
bad = 0
for seed in range(a, b + 1):
    for pid, walks in c_pool.WALKS["quick"].items():
        for i, wargs in enumerate(walks):
            path = os.path.join(d, f"w-{pid}-{i}.ndjson")
            json.loads(vlib.run_harness("pool", ["walk", "--seed", seed * 7919 + i, "--out", path] + wargs))
            viol, _ = c_pool.monitor("sweep", path)
            tags = sorted({v["tag"] for v in viol})
            small = int(wargs[wargs.index("--origins") + 1]) <= 2
            acc, rej, rj = c_pool.trace_validate("sweep", path, cfg="PoolTrace_small.cfg" if small else "PoolTrace.cfg")
            if tags or rej:
                bad += 1
                keep = os.path.join(d, f"BAD-{seed}-{pid}-{i}.ndjson")
                os.replace(path, keep)
                print(f"seed {seed} {pid}/{i}: flagged {tags} rejected_runs {rej} -> {keep}", flush=True)
    print(f"seed {seed} done, bad so far {bad}", flush=True)
print("SWEEP", "CLEAN" if bad == 0 else f"{bad} BAD")
