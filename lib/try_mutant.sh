#!/bin/bash
# Development tool: run checks against a MUTATED copy of the crate without touching /repo.
#   lib/try_mutant.sh <patch.diff> <ID> [<ID> ...]
# Uses a scratch worktree of /repo HEAD (/tmp/mutwt) and a copy of the harness (/tmp/mh) whose
# hyperdriver dependency points at the worktree. Evidence/out go to /tmp/mh-out, /tmp/mh-evid.
set -u
PATCH=$(readlink -f "$1"); shift
if [ ! -d /tmp/mutwt ]; then git -C /repo worktree add -q --detach /tmp/mutwt HEAD || exit 2; fi
git -C /tmp/mutwt checkout -q --detach $(git -C /repo rev-parse HEAD) && git -C /tmp/mutwt reset -q --hard && git -C /tmp/mutwt clean -qfd -e target
git -C /tmp/mutwt apply "$PATCH" || { echo "patch does not apply"; exit 2; }
mkdir -p /tmp/mh /tmp/mh-out /tmp/mh-evid
rsync -a --delete --exclude target --exclude target-da /verif/harness/ /tmp/mh/
sed -i 's#path = "/repo"#path = "/tmp/mutwt"#' /tmp/mh/Cargo.toml
for ID in "$@"; do
  VERIF_HARNESS_DIR=/tmp/mh VERIF_OUT_DIR=/tmp/mh-out VERIF_EVID_DIR=/tmp/mh-evid /verif/check $ID --tier ${TIER:-quick} > /tmp/mh-out/$ID.log 2>&1
  rc=$?
  echo "$ID exit=$rc $(grep -c '^VIOLATION' /tmp/mh-out/$ID.log) violation lines; keys: $(grep -A1 '^VIOLATION' /tmp/mh-out/$ID.log | grep -v '^VIOLATION\|^--' | sed 's/^ *//' | cut -d: -f1-2 | sort | uniq -c | tr '\n' ';' | cut -c1-300)"
done
git -C /tmp/mutwt reset -q --hard
