#!/bin/bash
# Development tool: run checks against a MUTATED copy of the crate without touching /repo.
#   [MUT_TAG=a] [TIER=quick] lib/try_mutant.sh <patch.diff> <ID> [<ID> ...]
# Uses a scratch worktree of /repo HEAD (/tmp/mutwt-$TAG) and a copy of this tree's harness (/tmp/mh-$TAG)
# whose hyperdriver dependency points at the worktree. Evidence / out go to /tmp/mh-$TAG-evid, /tmp/mh-$TAG-out,
# so the registered evidence files are not touched. Works from a `vp run` snapshot of /verif too.
set -u
ROOT=$(cd "$(dirname "$0")/.." && pwd)
TAG=${MUT_TAG:-a}
WT=/tmp/mutwt-$TAG
MH=/tmp/mh-$TAG
PATCH=$(readlink -f "$1"); shift
if [ ! -d "$WT" ]; then git -C /repo worktree add -q --detach "$WT" HEAD || exit 2; fi
git -C "$WT" checkout -q --detach "$(git -C /repo rev-parse HEAD)" && git -C "$WT" reset -q --hard && git -C "$WT" clean -qfd -e target
git -C "$WT" apply "$PATCH" || { echo "patch does not apply"; exit 2; }
mkdir -p "$MH" "$MH-out" "$MH-evid"
rsync -a --delete --exclude target --exclude target-da "$ROOT/harness/" "$MH/"
sed -i "s#path = \"/repo\"#path = \"$WT\"#" "$MH/Cargo.toml"
for ID in "$@"; do
  VERIF_HARNESS_DIR=$MH VERIF_OUT_DIR=$MH-out VERIF_EVID_DIR=$MH-evid "$ROOT/check" "$ID" --tier "${TIER:-quick}" > "$MH-out/$ID.log" 2>&1
  rc=$?
  keys=$(grep -A1 '^VIOLATION' "$MH-out/$ID.log" | grep -v '^VIOLATION\|^--' | sed 's/^ *//' | cut -c1-90 | sort | uniq -c | tr '\n' ';' | cut -c1-400)
  echo "$ID exit=$rc violations=$(grep -c '^VIOLATION' "$MH-out/$ID.log") keys: $keys"
done
git -C "$WT" reset -q --hard
