#!/bin/bash
# Soundness sweep on the UNCHANGED tree: runs quick checks with several seeds; anything but exit 0 needs attention.
# usage: lib/sweep_checks.sh "<ids>" "<seeds>"
ROOT=$(cd "$(dirname "$0")/.." && pwd)
mkdir -p /tmp/sweep-out /tmp/sweep-evid
for s in $2; do for id in $1; do
  VERIF_SEED=$s VERIF_OUT_DIR=/tmp/sweep-out VERIF_EVID_DIR=/tmp/sweep-evid "$ROOT/check" $id --tier quick > /tmp/sweep-out/$id-$s.log 2>&1
  rc=$?
  echo "seed=$s $id exit=$rc $(grep -c '^VIOLATION' /tmp/sweep-out/$id-$s.log) violations; $(grep -ciE 'drift' /tmp/sweep-out/$id-$s.log) drift-lines"
  if [ $rc -ne 0 ]; then grep -A1 '^VIOLATION\|TOOL-ERROR' /tmp/sweep-out/$id-$s.log | head -6; fi
done; done
echo SWEEP-DONE
