#!/bin/bash
# usage: lib/confirm_batch.sh <logfile> <name> ...   (appends "<name>: RESULT ..." lines)
ROOT=$(cd "$(dirname "$0")/.." && pwd); LOG=$1; shift
for n in "$@"; do echo "$n: $("$ROOT/lib/confirm_mutant.sh" "$ROOT/seeded_pending/$n" "${FEAT:-mocks,verif-hooks}" 2>&1 | tail -1)" >> "$LOG"; done
